#!/bin/sh
# Offline setup: install icontract/deal beside the repository's interpreter (git-ignored .deps)
# and verify that the tree under test imports from source.
set -e
HERE="$(cd "$(dirname "$0")" && pwd)"
cd "$HERE"
if [ ! -d .deps/icontract ]; then
  PIP_NO_INDEX=1 /venv/bin/pip install --quiet --no-index --find-links /opt/veriftools/wheels \
      --target "$HERE/.deps" icontract deal
fi
PYTHONDONTWRITEBYTECODE=1 PYTHONPATH="$HERE" /venv/bin/python -c "
from rv import env; env.pin()
import pyjelly, icontract
print('setup ok: pyjelly from', pyjelly.__file__)
"
