#!/bin/bash
# usage: tools/mut_try.sh <auto-mutant-id> <check-id> [budget]  -- run one check against a scratch export with one automatic mutant applied
set -u
id=$1; chk=$2; budget=${3:-8}
here=$(cd "$(dirname "$0")/.." && pwd)
s=/tmp/rvseed/mut-$$; rm -rf $s; mkdir -p $s/repo
git -C /repo archive HEAD | tar -x -C $s/repo
/venv/bin/python - "$id" "$s/repo" <<'PY'
import json, sys
mid, repo = sys.argv[1], sys.argv[2]
m = next(json.loads(l) for l in open('/verif/mutants/auto_mutants.jsonl') if json.loads(l)["id"] == mid)
p = f"{repo}/{m['file']}"
b = open(p, 'rb').read()
open(p, 'wb').write(b[:m['a']] + m['new'].encode() + b[m['b']:])
print("mutant", mid, m['file'], m['line'], m['kind'], repr(m['old']), '->', repr(m['new']))
PY
VERIF_REPO=$s/repo VERIF_BUDGET=$budget RV_OUT_DIR=$s/out $here/check $chk quick 2>&1 | tail -${LINES_OUT:-4}
rm -rf $s
