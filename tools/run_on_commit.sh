#!/bin/sh
# usage: tools/run_on_commit.sh <repo-commit> <ID> [tier]   - run a check against a scratch export of a /repo commit
# (used to confirm that a repaired defect is still detected on the tree before its repair)
set -e
C="$1"; ID="$2"; TIER="${3:-quick}"
D="/tmp/rv-commit-$C-$$"
mkdir -p "$D/repo"
git -C /repo archive "$C" pyjelly | tar -x -C "$D/repo"
cd "$(dirname "$0")/.."
VERIF_REPO="$D/repo" RV_OUT_DIR="$D/out" ./check "$ID" "$TIER" || true
rm -rf "$D"
