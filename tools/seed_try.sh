#!/bin/bash
# usage: tools/seed_try.sh <seed-name> <check-id> [budget] [tier]  -- run one check against a scratch export with the seed applied, show its output
set -u
name=$1; chk=$2; budget=${3:-12}; tier=${4:-quick}
here=$(cd "$(dirname "$0")/.." && pwd)
s=/tmp/rvseed/try-$$; rm -rf $s; mkdir -p $s/repo
git -C /repo archive HEAD | tar -x -C $s/repo
( cd $s/repo && patch -s -p1 -i $here/seeded/$name/patch.diff ) || { echo "patch failed"; rm -rf $s; exit 3; }
VERIF_REPO=$s/repo VERIF_BUDGET=$budget RV_OUT_DIR=$s/out $here/check $chk $tier 2>&1 | tail -${LINES_OUT:-25}
rc=${PIPESTATUS[0]}
rm -rf $s
echo "rc=$rc"
