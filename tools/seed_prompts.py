#!/usr/bin/env python3
"""Write the sub-agent prompts for one round of seeded changes: tools/seed_prompts.py <round-dir>
Each prompt contains ONLY the property text, the scratch worktree and one-line descriptions of earlier seeds
(so that the new change is different in kind) - nothing from /verif's checks."""
import glob, json, sys
root = sys.argv[1].rstrip("/")
props = {}
for l in open('/verif/properties.jsonl'):
    p = json.loads(l); props[p['id']] = p


def ptxt(p):
    return f"""PROPERTY {p['id']}: {p['title']}

Statement: {p['statement']}

Quantified over: {', '.join(p['quantifier']['over'])} -- {p['quantifier']['text']}

Why the existing tests cannot settle it: {p['why_tests_cant']}

Code it is anchored in: {', '.join(p['anchors']['files'])}
Mechanisms meant to make it hold: {'; '.join(m['name'] + ' (' + m.get('where', '') + ')' for m in p['anchors']['mechanism'])}
Where it is observed: {'; '.join(p['anchors'].get('observe_at') or [])}
"""


prev = {}
for d in sorted(glob.glob('/verif/seeded/C*')):
    m = json.load(open(d + '/meta.json'))
    prev.setdefault(m['property'], []).append((m['files'], m['needs_to_manifest']))
T = '''You are helping to evaluate a verification framework for the open-source Python library pyjelly (a pure-Python encoder/decoder for Jelly, a protobuf-based streaming RDF serialization format with LRU lookup tables, delta-encoded indices and frame flows). Your job is to play the role of a developer who introduces a realistic, subtle regression.

Your working copy: __DIR__  (a detached git worktree of the pyjelly repository; work ONLY inside it - never touch /repo, /verif or any other directory, and never commit).
Interpreter: /venv/bin/python (3.12; protobuf and rdflib are installed). IMPORTANT: /venv also contains a compiled pyjelly wheel - `import pyjelly` resolves to your working copy only when the current directory is __DIR__ or when your script starts with `import os, sys; sys.path.insert(0, "__DIR__")`. Always verify with `print(pyjelly.__file__)`.
Test suite: `cd __DIR__ && /venv/bin/python -m pytest -q -p no:cacheprovider` (487 tests pass, about 5 s). The suite rewrites some tracked files; after each run do `git -C __DIR__ checkout -- tests/integration_tests/test_examples/temp`. The suite uses --doctest-modules and imports every .py file under the tree: put the body of any script you add under `if __name__ == "__main__":`.
`git stash` state is shared between worktrees of this repository - do NOT use it; to get the unchanged tree use `git diff > __DIR__/my.patch; git checkout -- pyjelly; ...; git apply __DIR__/my.patch; rm __DIR__/my.patch`.

The property a user relies on (this is all you are given):

----------------------------------------------------------------
__PROPERTY__
----------------------------------------------------------------

Task: make ONE change to the library code under __DIR__/pyjelly (it may touch two cooperating places) that BREAKS this property while (1) still importing/compiling, (2) still passing the complete existing test suite unchanged (do not edit tests), and (3) looking like a plausible thing a maintainer might write (an optimisation, a refactoring slip, a cache, an off-by-one, a 'harmless' simplification, a missing state reset, ...). The break must need something SPECIFIC to manifest - a particular interleaving, a fault or truncation at a particular point, a multi-step sequence of operations, an unusual input or configuration, or two sites that each look fine alone - NOT something ordinary use would expose at once (for example it must not break the README examples or the common default-configuration round trip).

Earlier volunteers already produced the following regressions for this property; yours must be DIFFERENT in kind from all of them - a different code site AND a different triggering condition (explore another clause of the property statement, another entry point, another integration, another stream type, another part of the quantifier, or an unusual but legitimate way of calling the public API):
__PREVIOUS__

Deliver, inside __DIR__:
1. the change itself, left UNCOMMITTED in the working tree (only files under pyjelly/ modified; `git -C __DIR__ diff` must show exactly your change and nothing else);
2. `seed_demo.py` - a small self-contained program (first line `import os, sys; sys.path.insert(0, "__DIR__")`, body under `if __name__ == "__main__":`) that exits with status 1 and prints a line starting with `FAIL` when run against your changed tree, and exits 0 printing `PASS` when run against the unchanged tree; it must be safe to run (under a minute, no unbounded memory);
3. `SEED_NOTES.md` - 5-10 lines: what you changed, why it breaks the property, what exactly is needed for it to manifest, and the commands you ran (test suite result with the change, demo result with and without the change).

Before finishing, confirm all of: the test suite passes WITH your change (state the pass count); seed_demo.py fails with it and passes without it; `git diff --stat` lists only your intended files and your change is applied at the end. Your final message should be a short report (under 12 lines): files changed, one-sentence description of the regression, what it needs to manifest, and the three confirmations. Do not paste large outputs.
'''
for pid, p in props.items():
    d = f'{root}/{pid}'
    pv = '\n'.join(f"- change in {', '.join(f)}; needed to manifest: {n}" for f, n in prev.get(pid, [])) or '- (none)'
    open(f'{root}/{pid}.prompt.txt', 'w').write(T.replace('__DIR__', d).replace('__PROPERTY__', ptxt(p)).replace('__PREVIOUS__', pv))
print("prompts written to", root)
