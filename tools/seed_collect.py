#!/usr/bin/env python3
"""Collect a sub-agent's seeded change from its scratch worktree into /verif/seeded/<name>/.

usage: tools/seed_collect.py <worktree> <name> <property> "<needs>"
"""
import json, os, subprocess, sys
wt, name, prop, needs = sys.argv[1:5]
VERIF = os.path.dirname(os.path.dirname(os.path.abspath(__file__)))
d = os.path.join(VERIF, "seeded", name)
os.makedirs(d, exist_ok=True)
diff = subprocess.check_output(["git", "-C", wt, "diff", "--", "pyjelly"]).decode()
open(os.path.join(d, "patch.diff"), "w").write(diff)
demo = open(os.path.join(wt, "seed_demo.py")).read()
# make the demo location-independent: SEED_REPO names the tree to test (default /repo)
demo = demo.replace(f'"{wt}"', 'os.environ.get("SEED_REPO", "/repo")').replace(f"'{wt}'", 'os.environ.get("SEED_REPO", "/repo")')
import re
demo = re.sub(r'startswith\((["\'])' + re.escape(wt) + r'/?\1\)', 'startswith(os.environ.get("SEED_REPO", "/repo").rstrip("/") + "/")', demo)
if "import os" not in demo.split("sys.path.insert")[0]:
    demo = "import os\n" + demo
open(os.path.join(d, "demo.py"), "w").write(demo)
notes = open(os.path.join(wt, "SEED_NOTES.md")).read() if os.path.exists(os.path.join(wt, "SEED_NOTES.md")) else ""
open(os.path.join(d, "NOTES.md"), "w").write(notes)
files = sorted({l[6:] for l in diff.splitlines() if l.startswith("+++ b/")})
meta = {"property": prop, "name": name, "files": files, "needs_to_manifest": needs, "demo": "demo.py",
        "origin": "written by an independent sub-agent that was given only the property text and a scratch worktree",
        "base_commit": subprocess.check_output(["git", "-C", "/repo", "rev-parse", "--short", "HEAD"]).decode().strip(),
        "verified": {}}
json.dump(meta, open(os.path.join(d, "meta.json"), "w"), indent=1)
print(name, files, len(diff.splitlines()), "diff lines; wt mentions left in demo:", demo.count(wt))
