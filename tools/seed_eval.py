#!/usr/bin/env python3
"""Evaluate a seeded change kept under /verif/seeded/<name>/ (patch.diff, demo.py, meta.json).

usage: tools/seed_eval.py <name> [--checks C01,C03 | --all] [--tier quick] [--budget 20] [--skip-tests]
Steps (all on a scratch export of /repo HEAD under /tmp/rvseed, removed afterwards):
  1. demo on the unchanged export must PASS;  2. apply patch.diff;  3. repository test-suite must still pass;
  4. demo must FAIL;  5. run the listed checks with VERIF_REPO=<scratch> and report which ones raise a VIOLATION.
"""
import argparse
import json
import os
import shutil
import subprocess
import sys

VERIF = os.path.dirname(os.path.dirname(os.path.abspath(__file__)))
ALL = [f"C{i:02d}" for i in range(1, 21)]


def sh(cmd, cwd=None, env=None, timeout=3600):
    return subprocess.run(cmd, cwd=cwd, env=env, capture_output=True, text=True, timeout=timeout)


def main():
    ap = argparse.ArgumentParser()
    ap.add_argument("name")
    ap.add_argument("--checks", default="")
    ap.add_argument("--all", action="store_true")
    ap.add_argument("--tier", default="quick")
    ap.add_argument("--budget", default="20")
    ap.add_argument("--skip-tests", action="store_true")
    ap.add_argument("--jobs", type=int, default=4)
    ap.add_argument("--record", action="store_true", help="store the outcome in meta.json")
    a = ap.parse_args()
    sdir = os.path.join(VERIF, "seeded", a.name)
    meta = json.load(open(os.path.join(sdir, "meta.json")))
    scratch = f"/tmp/rvseed/{a.name}-{os.getpid()}"
    shutil.rmtree(scratch, ignore_errors=True)
    os.makedirs(scratch)
    repo = os.path.join(scratch, "repo")
    os.makedirs(repo)
    subprocess.run("git -C /repo archive HEAD | tar -x -C " + repo, shell=True, check=True)
    env = dict(os.environ, SEED_REPO=repo, PYTHONDONTWRITEBYTECODE="1")
    report = {"seed": a.name, "property": meta["property"]}
    try:
        demo = os.path.join(sdir, meta.get("demo", "demo.py"))
        r = sh(["/venv/bin/python", demo], cwd=repo, env=env, timeout=600)
        report["demo_unchanged"] = "PASS" if r.returncode == 0 else f"rc={r.returncode} {r.stdout[-200:]}{r.stderr[-200:]}"
        r = sh(["git", "apply", "--unsafe-paths", "--directory", repo, os.path.join(sdir, "patch.diff")], cwd="/")
        if r.returncode != 0:
            r = sh(["patch", "-p1", "-i", os.path.join(sdir, "patch.diff")], cwd=repo)
        report["patch_applied"] = r.returncode == 0
        if r.returncode != 0:
            report["patch_error"] = (r.stderr + r.stdout)[-400:]
            print(json.dumps(report, indent=1))
            return 2
        if not a.skip_tests:
            r = sh(["/venv/bin/python", "-m", "pytest", "-q", "-p", "no:cacheprovider", "--timeout=900"], cwd=repo, env=env)
            report["repo_tests_with_change"] = (r.stdout.strip().splitlines() or ["?"])[-1]
        r = sh(["/venv/bin/python", demo], cwd=repo, env=env, timeout=600)
        report["demo_changed"] = "FAIL" if r.returncode != 0 else "PASS(!)"
        checks = ALL if a.all else [c for c in a.checks.split(",") if c] or [meta["property"]]
        verdicts = {}

        def one(c):
            # closures / lattices need their full budget to be conclusive
            budget = {"C05": "55", "C06": "80"}.get(c, a.budget)
            e = dict(os.environ, VERIF_REPO=repo, VERIF_BUDGET=budget, RV_OUT_DIR=os.path.join(scratch, "out-" + c))
            r = sh([os.path.join(VERIF, "check"), c, a.tier], cwd=VERIF, env=e, timeout=7200)
            detail = next((l.strip() for l in r.stdout.splitlines() if l.startswith("  clause=")), "")
            first = next((l for l in r.stdout.splitlines() if l.startswith(("INCONCLUSIVE",))), "")
            return c, {0: "silent", 1: "CAUGHT", 2: "INCONCLUSIVE"}.get(r.returncode, f"rc={r.returncode}") + \
                (f" [{detail[:160]}]" if r.returncode == 1 else f" [{first[:160]}]" if r.returncode == 2 else "")
        from concurrent.futures import ThreadPoolExecutor
        with ThreadPoolExecutor(a.jobs) as ex:
            for c, v in ex.map(one, checks):
                verdicts[c] = v
        report["checks"] = verdicts
    finally:
        shutil.rmtree(scratch, ignore_errors=True)
    print(json.dumps(report, indent=1))
    if a.record:
        v = meta.setdefault("verified", {})
        v["demo_on_unchanged_tree"] = report.get("demo_unchanged")
        v["demo_with_change"] = report.get("demo_changed")
        if "repo_tests_with_change" in report:
            v["repository_tests_with_change"] = report["repo_tests_with_change"]
        v.setdefault("checks", {}).update({c: x for c, x in report.get("checks", {}).items()})
        v["ran"] = f"tools/seed_eval.py {a.name} (tier {a.tier}, budget {a.budget}s per shard) on an export of /repo HEAD with patch.diff applied"
        json.dump(meta, open(os.path.join(sdir, "meta.json"), "w"), indent=1)
    return 0


if __name__ == "__main__":
    sys.exit(main())
