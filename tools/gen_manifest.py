#!/usr/bin/env python3
"""Regenerate /verif/MANIFEST.json from the property modules that exist (rv/props/cNN.py)."""
import importlib
import json
import os
import sys

HERE = os.path.dirname(os.path.dirname(os.path.abspath(__file__)))
sys.path.insert(0, HERE)

props = [json.loads(l) for l in open(os.path.join(HERE, "properties.jsonl"))]
checks, na = [], []
for p in props:
    pid = p["id"]
    path = os.path.join(HERE, "rv", "props", pid.lower() + ".py")
    if not os.path.exists(path):
        na.append({"property_id": pid, "reason": "check not built yet in this session (planned, see DESIGN.md section 4)"})
        continue
    src = open(path).read()
    ns = {}
    # read the MANIFEST dict without importing pyjelly
    start = src.index("MANIFEST = {")
    depth = 0
    for i in range(start + len("MANIFEST = "), len(src)):
        if src[i] == "{":
            depth += 1
        elif src[i] == "}":
            depth -= 1
            if depth == 0:
                end = i + 1
                break
    m = eval(src[start + len("MANIFEST = "):end])  # noqa: S307 - our own file
    checks.append({
        "property_id": pid,
        "quick_cmd": f"./check {pid} quick",
        "thorough_cmd": f"./check {pid} thorough",
        "evidence_file": f"evidence/{pid}.json",
        "replay_cmd_template": f"./check {pid} --replay {{path}}",
        "engine": "rv",
        "level_claimed": {"category": m.get("category", "exploration"), "text": m["text"],
                          "design_ref": m.get("design_ref", f"DESIGN.md section 4, {pid}")},
        "level_note": m["note"],
        "technique": m["technique"],
    })

manifest = {
    "version": 1,
    "setup_cmd": "./setup.sh",
    "hooks": {
        "guard": "PYJELLY_VERIF",
        "enable": "no source hooks: ./check sets PYJELLY_VERIF=1 and applies all instrumentation in-process "
                  "(icontract invariants on the real classes, wrappers on public entry points, sys.monitoring); "
                  "the tree under test is imported from $VERIF_REPO (default /repo) source on every run",
        "baseline_off_cmd": "cd /repo && /venv/bin/python -m pytest -ra -q -p no:cacheprovider --timeout=900 "
                            "--continue-on-collection-errors",
        "source_commits": [],
        "add_only": True,
    },
    "engines": [{
        "name": "rv", "path": "rv/",
        "serves_properties": [c["property_id"] for c in checks],
        "kind_free_text": "runtime monitoring: generated/hostile workloads against the real pyjelly code, judged by "
                          "an independent wire codec + reference decoder/producer, boundary event logs, icontract "
                          "invariants and process-level watchdogs",
    }],
    "checks": checks,
    "not_applicable": na,
    "notes": "Exit codes: 0 held, 1 VIOLATION, 2 INCONCLUSIVE (monitor not reached / watchdog). "
             "VERIF_SEED, VERIF_TIER, VERIF_REPO, VERIF_BUDGET (seconds per shard) and VERIF_SHARDS are honoured. "
             "Known findings: known_findings.json.",
}
with open(os.path.join(HERE, "MANIFEST.json"), "w") as f:
    json.dump(manifest, f, indent=1)
    f.write("\n")
print(f"{len(checks)} checks, {len(na)} not_applicable")
