#!/usr/bin/env python3
"""Write seeded/RESULTS.md from seeded/*/meta.json (and seeded/MATRIX.json when present)."""
import json, os, glob
VERIF = os.path.dirname(os.path.dirname(os.path.abspath(__file__)))
matrix = {}
mp = os.path.join(VERIF, "seeded", "MATRIX.json")
if os.path.exists(mp):
    matrix = json.load(open(mp))
rows = []
for d in sorted(glob.glob(os.path.join(VERIF, "seeded", "C*"))):
    m = json.load(open(os.path.join(d, "meta.json")))
    name = os.path.basename(d)
    v = m.get("verified", {})
    checks = dict(v.get("checks", {}))
    checks.update(matrix.get(name, {}))
    caught = sorted(c for c, x in checks.items() if x.startswith("CAUGHT"))
    own = checks.get(m["property"], "not run")
    clause = own.split("clause=")[1].split(" ")[0] if "clause=" in own else own[:30]
    rows.append((name, m["property"], ", ".join(m["files"]), m["needs_to_manifest"], v.get("repository_tests_with_change", "?").split(",")[0],
                 f"{v.get('demo_on_unchanged_tree', '?')} / {v.get('demo_with_change', '?')}", clause, ", ".join(caught)))
out = ["# Seeded changes (written by independent sub-agents) and the checks that catch them", "",
       "Each directory holds `patch.diff` (against `/repo` HEAD at `base_commit`), `demo.py` (the author's demonstration; "
       "`SEED_REPO=<tree> /venv/bin/python demo.py`), `NOTES.md` (the author's notes) and `meta.json`.",
       "Every change passes the repository's own test-suite. `tools/seed_eval.py <name> [--all]` re-applies a change to a scratch "
       "export of `/repo` and runs the checks against it (`VERIF_REPO`); nothing here is ever applied to `/repo` itself.", "",
       "| seeded change | property | files | needs, to manifest | repo tests with change | demo unchanged / changed | own check reports | all checks that catch it (quick tier) |",
       "|---|---|---|---|---|---|---|---|"]
for r in rows:
    out.append("| " + " | ".join(str(x).replace("|", "/") for x in r) + " |")
missed = [r[0] for r in rows if r[1] not in r[7].split(", ")]
out += ["", f"{len(rows)} seeded changes; caught by their own property's check: {len(rows) - len(missed)}." +
        (f" NOT caught: {missed}" if missed else "")]
open(os.path.join(VERIF, "seeded", "RESULTS.md"), "w").write("\n".join(out) + "\n")
print(out[-1])
