#!/bin/sh
# usage: tools/run_all.sh [quick|thorough] [ids...]   - run checks in sequence, print one summary line per check
cd "$(dirname "$0")/.."
TIER="${1:-quick}"; shift 2>/dev/null
IDS="$*"
[ -z "$IDS" ] && IDS="C01 C02 C03 C04 C05 C06 C07 C08 C09 C10 C11 C12 C13 C14 C15 C16 C17 C18 C19 C20"
for id in $IDS; do
  start=$(date +%s)
  out=$(./check "$id" "$TIER" 2>&1); rc=$?
  end=$(date +%s)
  echo "$id rc=$rc $((end-start))s $(echo "$out" | grep -E '^(VIOLATION|INCONCLUSIVE|KNOWN-FINDING)' | cut -c1-150 | head -3 | tr '\n' '|')"
done
