#!/usr/bin/env python3
"""Harness self-test (outside every deciding path): rv.wire <-> google.protobuf on random Jelly frames."""
import os
import sys

HERE = os.path.dirname(os.path.dirname(os.path.abspath(__file__)))
sys.path.insert(0, HERE)
from rv import env  # noqa: E402

env.pin()
from pyjelly import jelly  # noqa: E402

from rv import gen, refenc, wire  # noqa: E402


def strip(fr):
    return {"rows": fr["rows"], "metadata": list(fr["metadata"])}


def main(n=300):
    bad = 0
    total = 0
    for case in range(n):
        rng = gen.rng_for("selftest", case)
        phys = rng.choice([1, 2, 3])
        stmts = gen.statements(rng, rng.randint(0, 25), 3 if phys == 1 else 4, "generic")
        evs = [("stmt", s) for s in stmts]
        if rng.random() < .3:
            evs.insert(0, ("ns", "p", "http://ex.org/ns/"))
        try:
            pr = refenc.produce(rng, evs, refenc.make_options(rng, phys, refenc.sizes_for(rng, evs, phys), len(evs) > len(stmts)),
                                refenc.Policy.random(rng))
        except refenc.InternalProducerError:
            raise
        except refenc.ProducerError:
            continue
        for fr in pr.frames:
            total += 1
            mine = wire.enc_frame(fr)
            msg = jelly.RdfStreamFrame.FromString(mine)          # protobuf accepts our bytes
            theirs = msg.SerializeToString(deterministic=True)
            back = wire.dec_frame(theirs)                          # we read protobuf's bytes
            if strip(back) != strip(wire.dec_frame(mine)) or strip(back)["rows"] != [tuple(r) for r in fr["rows"]]:
                # compare after normalising absent/None
                a = strip(back)
                b = {"rows": [_norm(r) for r in fr["rows"]], "metadata": list(fr["metadata"])}
                a = {"rows": [_norm(r) for r in a["rows"]], "metadata": a["metadata"]}
                if a != b:
                    bad += 1
                    print("MISMATCH", case, a, b, sep="\n")
            if len(msg.rows) != len(fr["rows"]):
                bad += 1
    print(f"wire self-test: {total} frames, {bad} mismatches")
    return 1 if bad else 0


def _norm(x):
    if isinstance(x, dict):
        return {k: _norm(v) for k, v in x.items() if v is not None}
    if isinstance(x, (list, tuple)):
        return tuple(_norm(i) for i in x)
    return x


if __name__ == "__main__":
    sys.exit(main())
