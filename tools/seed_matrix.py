#!/usr/bin/env python3
"""Run every check against every seeded change (quick tier) and print/store the catch matrix.

usage: tools/seed_matrix.py [--budget 10] [--jobs 5] [--out seeded/MATRIX.json]
"""
import argparse, json, os, subprocess, sys
VERIF = os.path.dirname(os.path.dirname(os.path.abspath(__file__)))
ap = argparse.ArgumentParser()
ap.add_argument("--budget", default="10")
ap.add_argument("--jobs", default="5")
ap.add_argument("--out", default=os.path.join(VERIF, "seeded", "MATRIX.json"))
a = ap.parse_args()
matrix = {}
for name in sorted(os.listdir(os.path.join(VERIF, "seeded"))):
    if not os.path.isdir(os.path.join(VERIF, "seeded", name)):
        continue
    r = subprocess.run([os.path.join(VERIF, "tools", "seed_eval.py"), name, "--all", "--skip-tests", "--budget", a.budget,
                        "--jobs", a.jobs], capture_output=True, text=True)
    try:
        rep = json.loads(r.stdout)
    except json.JSONDecodeError:
        print(name, "ERROR", r.stdout[-300:], r.stderr[-300:], flush=True)
        continue
    matrix[name] = rep.get("checks", {})
    caught = [c for c, v in matrix[name].items() if v.startswith("CAUGHT")]
    odd = [f"{c}:{v[:40]}" for c, v in matrix[name].items() if not v.startswith(("CAUGHT", "silent"))]
    print(f"{name}: caught by {caught} {('; other: ' + str(odd)) if odd else ''}", flush=True)
    json.dump(matrix, open(a.out, "w"), indent=1)
