#!/usr/bin/env python3
import glob, json, sys
pid = sys.argv[1]
only_none = len(sys.argv) > 2
for p in sorted(glob.glob(f"/verif/replays/{pid}-*.json")):
    w = json.load(open(p))["witness"]
    if only_none and w.get("mechanism"):
        continue
    print(p, w.get("mechanism"), w.get("clause"), w.get("class"), w.get("summary", "")[:400], w.get("refdec", ""), sep="\n   ")
