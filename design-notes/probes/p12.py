import sys; sys.path.insert(0,'/repo')
import io, random, warnings; warnings.filterwarnings("ignore")
import rdflib; rdflib.NORMALIZE_LITERALS=False
from rdflib import URIRef, BNode, Literal as RL
from rdflib.graph import DATASET_DEFAULT_GRAPH_ID
from pyjelly import jelly
from pyjelly.options import *
from pyjelly.serialize.streams import *
from pyjelly.serialize.ioutils import write_delimited
import pyjelly.integrations.generic.serialize as GS
import pyjelly.integrations.rdflib.serialize as RS
from pyjelly.integrations.generic.generic_sink import *
from pyjelly.integrations.rdflib.parse import Triple as RT, Quad as RQ
XSD="http://www.w3.org/2001/XMLSchema#"
rnd=random.Random(1)
NS=["http://a.org/x/","http://b.org/y#","urn:z:",""]
def riri(): return ('iri', rnd.choice(NS)+rnd.choice(["a","b","c","d","e","f","g","h","i","j"]))
def rlit():
    k=rnd.random()
    if k<.3: return ('lit', rnd.choice(["","x","y"]), None, None)
    if k<.5: return ('lit', rnd.choice(["x","y"]), rnd.choice(["en","de-AT"]), None)
    if k<.6: return ('lit', rnd.choice(["x","y"]), None, XSD+"string")
    return ('lit', rnd.choice(["1","2"]), None, XSD+rnd.choice(["integer","int","long","byte"]))
def rs(): return riri() if rnd.random()<.7 else ('bnode', rnd.choice(["b1","b2"]))
def ro():
    k=rnd.random()
    return riri() if k<.4 else rlit() if k<.9 else ('bnode','b3')
def rg(): 
    k=rnd.random()
    return ('default',) if k<.3 else riri() if k<.8 else ('bnode','g1')
def tog(t):
    if t[0]=='iri': return IRI(t[1])
    if t[0]=='bnode': return BlankNode(t[1])
    if t[0]=='lit': return Literal(t[1],t[2],t[3])
    if t[0]=='default': return DefaultGraph
def tor(t):
    if t[0]=='iri': return URIRef(t[1])
    if t[0]=='bnode': return BNode(t[1])
    if t[0]=='lit': return RL(t[1],lang=t[2],datatype=t[3] and URIRef(t[3]))
    if t[0]=='default': return DATASET_DEFAULT_GRAPH_ID
mism=0; n=0
for case in range(300):
    quads = rnd.random()<.5
    N=rnd.randint(1,30)
    prev=None; stmts=[]
    for i in range(N):
        s=rs() if not prev or rnd.random()<.6 else prev[0]
        p=riri() if not prev or rnd.random()<.5 else prev[1]
        o=ro() if not prev or rnd.random()<.8 else prev[2]
        st=(s,p,o)+((rg() if not prev or rnd.random()<.5 else prev[3],) if quads else ())
        stmts.append(st); prev=st
    preset=LookupPreset(max_names=rnd.choice([8,9,16]), max_prefixes=rnd.choice([0,4,5,8]), max_datatypes=rnd.choice([1,2,8]))
    fs=rnd.choice([1,2,5,250])
    for cls,lt in ([(QuadStream,2),(GraphStream,2)] if quads else [(TripleStream,1)]):
        def run(mod, conv, T, Q, enc):
            opts=SerializerOptions(logical_type=lt, frame_size=fs, lookup_preset=preset)
            st=cls(encoder=enc(lookup_preset=preset), options=opts)
            gen=((Q if quads else T)(*map(conv,x)) for x in stmts)
            out=io.BytesIO()
            for f in mod.stream_frames(st, gen): write_delimited(f,out)
            return out.getvalue()
        try:
            bg=run(GS,tog,Triple,Quad,GS.GenericSinkTermEncoder)
            br=run(RS,tor,RT,RQ,RS.RDFLibTermEncoder)
        except Exception as e:
            print("EXC",cls.__name__,repr(e)); continue
        n+=1
        if bg!=br:
            mism+=1
            if mism<4: print("byte mismatch", cls.__name__, len(bg), len(br))
print("cases",n,"mismatches",mism)

# find a minimal mismatch for TripleStream
from google.protobuf.proto import parse_length_prefixed
def rows(b):
    inp=io.BytesIO(b); out=[]
    while (f:=parse_length_prefixed(jelly.RdfStreamFrame, inp)) is not None:
        out.extend(str(r).replace("\n"," ") for r in f.rows); out.append("--frame--")
    return out
rnd=random.Random(5)
for case in range(2000):
    N=rnd.randint(1,4); stmts=[(rs(),riri(),ro()) for _ in range(N)]
    preset=LookupPreset(max_names=8,max_prefixes=4,max_datatypes=4)
    def run(mod, conv, T, enc):
        opts=SerializerOptions(logical_type=1, frame_size=250, lookup_preset=preset)
        st=TripleStream(encoder=enc(lookup_preset=preset), options=opts)
        out=io.BytesIO()
        for f in mod.stream_frames(st, (T(*map(conv,x)) for x in stmts)): write_delimited(f,out)
        return out.getvalue()
    bg=run(GS,tog,Triple,GS.GenericSinkTermEncoder); br=run(RS,tor,RT,RS.RDFLibTermEncoder)
    if bg!=br and N<=2:
        print(stmts)
        a,b=rows(bg),rows(br)
        for x,y in zip(a,b):
            print(("  " if x==y else "!!"), x, "|", y)
        break
