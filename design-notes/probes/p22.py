import sys; sys.path.insert(0,'/repo')
import io, warnings; warnings.filterwarnings("ignore")
import rdflib
from rdflib import Graph, Dataset, URIRef, Literal, Namespace
from pyjelly import jelly
from pyjelly.options import *
from pyjelly.serialize.streams import *
import pyjelly.integrations.rdflib.parse as RP
binds=[("", "http://empty.org/"),("ex","http://ex.org/a/"),("é","http://ü.org/ø#"),("noslash","urn:x"),("ex2","http://ex.org/a/b/")]
for cls_name,mk in [("Graph",lambda: Graph(bind_namespaces="none")),("Dataset",lambda: Dataset(bind_namespaces="none") if True else None)]:
    try: g=mk()
    except TypeError as e: print(cls_name,"ctor",e); continue
    for p,n in binds: g.bind(p,URIRef(n))
    if cls_name=="Graph": g.add((URIRef("http://ex.org/a/s"),URIRef("http://ex.org/a/p"),Literal("o")))
    else: g.add((URIRef("http://ex.org/a/s"),URIRef("http://ex.org/a/p"),Literal("o"),URIRef("http://g/1")))
    src=[(p,str(n)) for p,n in g.namespaces()]
    for names,pref in [(4000,150),(8,1),(8,0)]:
        o=SerializerOptions(logical_type=1 if cls_name=="Graph" else 2, params=StreamParameters(namespace_declarations=True), lookup_preset=LookupPreset(max_names=names,max_prefixes=pref,max_datatypes=4))
        out=io.BytesIO(); g.serialize(out, format="jelly", options=o)
        ev=[(x.prefix,str(x.iri)) for x in RP.parse_jelly_flat(io.BytesIO(out.getvalue())) if isinstance(x,RP.Prefix)]
        g2=mk(); g2.parse(data=out.getvalue(), format="jelly")
        back=[(p,str(n)) for p,n in g2.namespaces()]
        print(cls_name,names,pref,"events ok",ev==src,"store ok",back==src, len(src), len(back))
        if ev!=src: print("   src",src,"\n   ev ",ev)
        if back!=src: print("   back",back)
