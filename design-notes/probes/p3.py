import sys; sys.path.insert(0,'/repo')
import io
from pyjelly import jelly
from pyjelly.integrations.generic.generic_sink import *
from pyjelly.integrations.generic.parse import parse_jelly_flat, parse_jelly_grouped, parse_jelly_to_graph
from pyjelly.integrations.generic.parse import get_options_and_frames
from google.protobuf.proto import serialize_length_prefixed
R=jelly.RdfStreamRow
def frame(rows): return jelly.RdfStreamFrame(rows=rows)
def delim(frames):
    out=io.BytesIO()
    for f in frames: serialize_length_prefixed(f,out)
    return out.getvalue()
def opts(**kw):
    d=dict(physical_type=1, max_name_table_size=8, max_prefix_table_size=8, max_datatype_table_size=8, version=1, logical_type=1)
    d.update(kw); return R(options=jelly.RdfStreamOptions(**d))
def tryparse(label,b, fn=parse_jelly_flat):
    try:
        r=fn(io.BytesIO(b)); r=list(r) if fn is not parse_jelly_to_graph else list(r)
        print(label,"->",r)
    except BaseException as e: print(label,"-> EXC",type(e).__name__,e)

name=lambda i,v: R(name=jelly.RdfNameEntry(id=i,value=v))
pref=lambda i,v: R(prefix=jelly.RdfPrefixEntry(id=i,value=v))
dt=lambda i,v: R(datatype=jelly.RdfDatatypeEntry(id=i,value=v))
iri=lambda p,n: jelly.RdfIri(prefix_id=p,name_id=n)
base=[pref(0,"http://a/"),name(0,"s"),name(0,"p"),name(0,"o")]
# P3 datatype with disabled table
b=delim([frame([opts(max_datatype_table_size=0)]+base+[R(triple=jelly.RdfTriple(s_iri=iri(1,0),p_iri=iri(0,0),o_literal=jelly.RdfLiteral(lex="5",datatype=3)))])])
tryparse("dt-disabled",b)
# P4 GRAPHS triple outside graph
b=delim([frame([opts(physical_type=3,logical_type=2)]+base+[R(triple=jelly.RdfTriple(s_iri=iri(1,0),p_iri=iri(0,0),o_iri=iri(0,0)))])])
tryparse("triple-outside-graph",b)
# after graph end
b=delim([frame([opts(physical_type=3,logical_type=2)]+base+[R(graph_start=jelly.RdfGraphStart(g_default_graph=jelly.RdfDefaultGraph())),R(graph_end=jelly.RdfGraphEnd()),R(triple=jelly.RdfTriple(s_iri=iri(1,0),p_iri=iri(0,0),o_iri=iri(0,0)))])])
tryparse("triple-after-graph-end",b)
# P5 version 3
for v in [0,1,2,3,99]:
    b=delim([frame([opts(version=v)]+base+[R(triple=jelly.RdfTriple(s_iri=iri(1,0),p_iri=iri(0,0),o_iri=iri(0,0)))])])
    tryparse(f"version {v}",b)
    try: print("   options:", get_options_and_frames(io.BytesIO(b))[0].params)
    except Exception as e: print("   EXC", e)
# physical type unspecified
b=delim([frame([opts(physical_type=0,logical_type=0)]+base+[R(triple=jelly.RdfTriple(s_iri=iri(1,0),p_iri=iri(0,0),o_iri=iri(0,0)))])])
tryparse("phys unspecified",b)
# missing repeated term in first statement
b=delim([frame([opts()]+base+[R(triple=jelly.RdfTriple(s_iri=iri(1,0),p_iri=iri(0,0)))])])
tryparse("missing o in first",b)
# name id beyond size
b=delim([frame([opts()]+base+[R(triple=jelly.RdfTriple(s_iri=iri(1,9),p_iri=iri(0,1),o_iri=iri(0,1)))])])
tryparse("name id 9 of 8",b)
# ref to unfilled slot
b=delim([frame([opts()]+base+[R(triple=jelly.RdfTriple(s_iri=iri(1,5),p_iri=iri(0,1),o_iri=iri(0,1)))])])
tryparse("name id 5 unfilled",b)
# prefix ref 0 when no previous (should be '' by lenient reading) with table enabled
b=delim([frame([opts()]+base+[R(triple=jelly.RdfTriple(s_iri=iri(0,1),p_iri=iri(0,1),o_iri=iri(0,1)))])])
tryparse("prefix 0 first",b)
# entry id beyond size
b=delim([frame([opts()]+base+[name(9,"x")])])
tryparse("entry id 9 of 8",b)
# options missing
b=delim([frame(base+[R(triple=jelly.RdfTriple(s_iri=iri(1,0),p_iri=iri(0,0),o_iri=iri(0,0)))])])
tryparse("no options",b)
# options in second position changed
b=delim([frame([opts()]+base+[opts(max_name_table_size=16),R(triple=jelly.RdfTriple(s_iri=iri(1,1),p_iri=iri(0,0),o_iri=iri(0,0)))])])
tryparse("options changed",b)
# quad in triples stream
b=delim([frame([opts()]+base+[R(quad=jelly.RdfQuad(s_iri=iri(1,1),p_iri=iri(0,0),o_iri=iri(0,0),g_default_graph=jelly.RdfDefaultGraph()))])])
tryparse("quad in TRIPLES",b)
# namespace row in v1 stream
b=delim([frame([opts()]+base+[R(namespace=jelly.RdfNamespaceDeclaration(name="ex",value=iri(1,1)))])])
tryparse("ns in v1",b)
# size > 4096
b=delim([frame([opts(max_name_table_size=5000)]+base)])
tryparse("names 5000",b)
b=delim([frame([opts(max_name_table_size=4000000000)]+base)])
tryparse("names 4e9",b)
# repeated term in quoted triple
b=delim([frame([opts(rdf_star=True)]+base+[R(triple=jelly.RdfTriple(s_iri=iri(1,1),p_iri=iri(0,0),o_triple_term=jelly.RdfTriple(s_iri=iri(0,1),p_iri=iri(0,2))))])])
tryparse("quoted incomplete",b)
# empty row (no oneof)
b=delim([frame([opts()]+base+[R()])])
tryparse("empty row",b)
# term-less graph start
b=delim([frame([opts(physical_type=3,logical_type=2)]+base+[R(graph_start=jelly.RdfGraphStart())])])
tryparse("graph start without term",b)
