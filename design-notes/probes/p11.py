import sys; sys.path.insert(0,'/repo')
import io, warnings; warnings.filterwarnings("ignore")
import rdflib; rdflib.NORMALIZE_LITERALS=False
from rdflib import Dataset, Graph, URIRef, Literal, BNode, XSD
from pyjelly import jelly
from pyjelly.options import *
from pyjelly.integrations.rdflib.serialize import *
from pyjelly.integrations.rdflib.parse import parse_jelly_flat, parse_jelly_grouped, parse_jelly_to_graph, Quad, Triple
from pyjelly.serialize.streams import *
ds=Dataset()
E="http://e/"
for i in range(7):
    ds.add((URIRef(E+f"s{i%3}"),URIRef(E+"p#q"),Literal(str(i),datatype=URIRef(E+f"dt{i%3}")), URIRef(E+f"g{i%2}")))
ds.add((BNode("b1"),URIRef(E+"p"),Literal("x",lang="en-GB")))
ds.add((BNode("b1"),URIRef(E+"p"),Literal("y"),BNode("gb")))
ref=set(ds.quads())
def norm(q): return tuple(q)
for cls in (QuadStream, GraphStream):
  for lt in (0,2,4,14,114):
    for delim in (True,False):
      for fs in (1,3,250):
        try:
            opts=SerializerOptions(logical_type=lt, frame_size=fs, params=StreamParameters(delimited=delim), lookup_preset=LookupPreset(max_names=8,max_prefixes=2,max_datatypes=2))
            st=cls.for_rdflib(opts)
            out=io.BytesIO(); ds.serialize(out, format="jelly", stream=st, options=opts)
            b=out.getvalue()
            d2=Dataset(); 
            if b: d2.parse(data=b, format="jelly")
            got=set(d2.quads())
            print(cls.__name__, lt, delim, fs, "bytes",len(b), "OK" if got==ref else f"MISMATCH got {len(got)} of {len(ref)}")
        except Exception as e:
            print(cls.__name__, lt, delim, fs, "EXC", type(e).__name__, str(e)[:80])
