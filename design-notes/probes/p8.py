import sys; sys.path.insert(0,'/repo')
import io, resource, tracemalloc, time
from pyjelly.integrations.generic.parse import parse_jelly_flat
def varint(n):
    out=bytearray()
    while True:
        b=n&0x7f; n>>=7
        if n: out.append(b|0x80)
        else: out.append(b); return bytes(out)
for decl in [2**20, 2**28, 2**31-1, 2**33, 2**62]:
    data=varint(decl)+b"\x0a\x02\x0a\x00"+b"\x00"*50
    open("/tmp/probe/h.bin","wb").write(data)
    for mode in ["file","bytesio"]:
        tracemalloc.start()
        r0=resource.getrusage(resource.RUSAGE_SELF).ru_maxrss
        t=time.time()
        try:
            src=open("/tmp/probe/h.bin","rb") if mode=="file" else io.BytesIO(data)
            res=list(parse_jelly_flat(src)); out="ret %d"%len(res)
        except BaseException as e: out="EXC %s %s"%(type(e).__name__, str(e)[:60])
        cur,peak=tracemalloc.get_traced_memory(); tracemalloc.stop()
        r1=resource.getrusage(resource.RUSAGE_SELF).ru_maxrss
        print(f"decl={decl:>20} {mode:8} {out:90} traced_peak={peak:>12} rss_delta_kb={r1-r0} t={time.time()-t:.3f}")
