import sys; sys.path.insert(0,'/repo')
import io, itertools, warnings; warnings.filterwarnings("ignore")
from pyjelly import jelly
from pyjelly.options import *
from pyjelly.serialize.streams import *
from pyjelly.serialize.ioutils import write_delimited, write_single
from pyjelly.serialize.encode import TermEncoder
from pyjelly.parse.ioutils import get_options_and_frames
import pyjelly.integrations.generic.serialize as GS
from pyjelly.integrations.generic.generic_sink import *
PH={TripleStream:1,QuadStream:2,GraphStream:3}
LTS=[0,1,2,3,4,13,14,114]
spec_ok=lambda ph,lt: lt==0 or (ph==1)==(lt in (1,3,13))
bad=0; n=0
for cls in PH:
  for lt in LTS:
    for delim in (True,False):
      for names,pre,dts in [(8,0,0),(4096,4096,4096),(9,1,1),(127,128,129)]:
        for gen,star,nd,nm in [(False,False,False,""),(True,False,True,"näme 𝄞"),(False,True,False,"x"*300)]:
          try:
            o=SerializerOptions(logical_type=lt, params=StreamParameters(generalized_statements=gen,rdf_star=star,namespace_declarations=nd,stream_name=nm,delimited=delim), lookup_preset=LookupPreset(max_names=names,max_prefixes=pre,max_datatypes=dts))
            st=cls(encoder=GS.GenericSinkTermEncoder(lookup_preset=o.lookup_preset), options=o)
          except Exception as e:
            if spec_ok(PH[cls],lt): print("writer rejects legal",cls.__name__,lt,repr(e)); bad+=1
            continue
          if not spec_ok(PH[cls],lt): print("writer accepts illegal",cls.__name__,lt); bad+=1
          st.enroll(); f=st.flow.to_stream_frame(); out=io.BytesIO(); (write_delimited if delim else write_single)(f,out)
          po,_=get_options_and_frames(io.BytesIO(out.getvalue()))
          n+=1
          exp_lt = st.stream_types.logical_type
          got=(po.stream_types.physical_type, po.stream_types.logical_type, po.lookup_preset.max_names, po.lookup_preset.max_prefixes, po.lookup_preset.max_datatypes, po.params.stream_name, po.params.generalized_statements, po.params.rdf_star, po.params.version, po.params.delimited, po.params.namespace_declarations)
          exp=(PH[cls], exp_lt, names,pre,dts,nm,gen,star, 2 if nd else 1, delim, nd)
          if got!=exp: bad+=1; print("MISMATCH",cls.__name__,lt,delim,got,exp)
          if exp_lt!=lt: print("note: logical type written", exp_lt, "for requested", lt, cls.__name__, "delim",delim) if n<40 else None
print("configs",n,"bad",bad)
