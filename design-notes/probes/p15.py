import sys; sys.path.insert(0,'/repo')
import io, random, time, warnings; warnings.filterwarnings("ignore")
from pyjelly.integrations.generic.generic_sink import *
from pyjelly.integrations.generic.serialize import *
from pyjelly.integrations.generic.parse import parse_jelly_flat, parse_jelly_grouped
import pyjelly.integrations.rdflib.parse as RP
from pyjelly.serialize.streams import *
from pyjelly.options import *
def T(i): return Triple(IRI(f"http://ex.org/a/s{i%5}"), IRI(f"http://ex.org/b#p{i%3}"), Literal(f"v{i}", datatype="http://dt/x"))
out=io.BytesIO()
flat_stream_to_file((T(i) for i in range(40)), out, SerializerOptions(logical_type=1, frame_size=7, lookup_preset=LookupPreset(max_names=8,max_prefixes=2,max_datatypes=2)))
data=out.getvalue(); full=list(parse_jelly_flat(io.BytesIO(data)))
print(len(data), len(full))
outcomes={}
bad=0
for k in range(len(data)+1):
    got=[]; end="stop"
    try:
        for x in parse_jelly_flat(io.BytesIO(data[:k])): got.append(x)
    except Exception as e: end=type(e).__name__
    outcomes[end]=outcomes.get(end,0)+1
    if got!=full[:len(got)]: bad+=1; print("NOT PREFIX at",k)
print(outcomes,"bad",bad)
# quick fuzz
rnd=random.Random(3); t=time.time(); res={}
for i in range(30000):
    m=rnd.random()
    if m<.3: b=bytes(rnd.getrandbits(8) for _ in range(rnd.randint(0,60)))
    else:
        b=bytearray(data[:rnd.randint(3,len(data))])
        for _ in range(rnd.randint(1,4)):
            j=rnd.randrange(len(b)); 
            op=rnd.random()
            if op<.5: b[j]^=1<<rnd.randrange(8)
            elif op<.75: del b[j]
            else: b.insert(j, rnd.getrandbits(8))
        b=bytes(b)
    for fn in (parse_jelly_flat, RP.parse_jelly_flat):
        try:
            n=sum(1 for _ in fn(io.BytesIO(b))); r="ok"
        except Exception as e: r=type(e).__name__
        except BaseException as e: r="BASE:"+type(e).__name__
        res[r]=res.get(r,0)+1
print(res, "%.1fs"%(time.time()-t))
