import sys; sys.path.insert(0,'/repo')
import io, random
from pyjelly.options import *
from pyjelly.serialize.streams import *
from pyjelly.serialize.ioutils import write_delimited, write_single
from pyjelly.serialize.encode import split_iri
import pyjelly.integrations.generic.serialize as GS
import pyjelly.integrations.generic.parse as GP
from pyjelly.integrations.generic.generic_sink import *
XSD="http://www.w3.org/2001/XMLSchema#"
rnd=random.Random(11)
NS=["http://a.org/x/","http://b.org/y#","urn:z:","","http://a.org/x/q/","http://ü.org/ø#"]
def riri(): return IRI(rnd.choice(NS)+rnd.choice(["a","b","c","d","e","f","g","h","i","j","","k#l","é"]))
def rlit():
    k=rnd.random()
    if k<.25: return Literal(rnd.choice(["","x","y","日本"]))
    if k<.35: return Literal(rnd.choice(["x","y"]), None, XSD+"string")
    if k<.5: return Literal(rnd.choice(["x","y"]), rnd.choice(["en","de-AT"]))
    return Literal(rnd.choice(["1","2",""]), None, XSD+rnd.choice(["integer","int","long","byte"]))
def rterm(depth=0):
    k=rnd.random()
    if k<.5: return riri()
    if k<.7: return rlit()
    if k<.85 or depth>1: return BlankNode(rnd.choice(["b1","b2",""]))
    return Triple(rterm(depth+1), rterm(depth+1) if rnd.random()<.3 else riri(), rterm(depth+1))
def rg():
    k=rnd.random()
    return DefaultGraph if k<.3 else riri() if k<.7 else BlankNode('g1') if k<.85 else rlit()
def need(term, acc, pre_enabled):
    if isinstance(term,IRI):
        p,n=split_iri(term._iri)
        if pre_enabled: acc[0].add(p); acc[1].add(n)
        else: acc[1].add(term._iri)
    elif isinstance(term,Literal):
        if term._datatype and term._datatype!=XSD+"string": acc[2].add(term._datatype)
    elif isinstance(term,tuple):
        for t in term: need(t,acc,pre_enabled)
def norm(t):
    if isinstance(t,Literal): return ('l',t._lex,t._langtag,None if t._datatype==XSD+"string" else t._datatype)
    if isinstance(t,IRI): return ('i',t._iri)
    if isinstance(t,BlankNode): return ('b',t._identifier)
    if isinstance(t,tuple): return tuple(norm(x) for x in t)
    return ('dg',) if t is DefaultGraph else ('??',t)
bad=0; tot=0; exc={}
for case in range(4000):
    quads=rnd.random()<.6
    N=rnd.randint(0,30); prev=None; stmts=[]
    for i in range(N):
        s=rterm() if not prev or rnd.random()<.6 else prev[0]
        p=rterm() if not prev or rnd.random()<.5 else prev[1]
        o=rterm() if not prev or rnd.random()<.8 else prev[2]
        st=(s,p,o)+((rg() if not prev or rnd.random()<.5 else prev[3],) if quads else ())
        stmts.append(st); prev=st
    pre_enabled=rnd.random()<.8
    mp=md=mn=0
    for st in stmts:
        for group in ([st[:3], st[3:]] if quads else [st]):   # GRAPHS: graph start separate row; QUADS: whole quad one row -> use whole
            pass
        acc=(set(),set(),set()); 
        for t in st: need(t,acc,pre_enabled)
        mp=max(mp,len(acc[0])); mn=max(mn,len(acc[1])); md=max(md,len(acc[2]))
    preset=LookupPreset(max_names=max(8,mn)+rnd.choice([0,0,1,5]), max_prefixes=(mp+rnd.choice([0,0,1,4]) if pre_enabled else 0) or (1 if pre_enabled else 0), max_datatypes=(md+rnd.choice([0,0,1])) if md else rnd.choice([0,1]))
    cls=rnd.choice([QuadStream,GraphStream]) if quads else TripleStream
    delim=rnd.random()<.7
    opts=SerializerOptions(logical_type=2 if quads else 1, frame_size=rnd.choice([1,2,3,7,250]), lookup_preset=preset, params=StreamParameters(generalized_statements=True,rdf_star=True,delimited=delim))
    st_=cls(encoder=GS.GenericSinkTermEncoder(lookup_preset=preset), options=opts)
    out=io.BytesIO()
    try:
        for f in GS.stream_frames(st_, ((Quad if quads else Triple)(*x) for x in stmts)): (write_delimited if delim else write_single)(f,out)
        if not stmts and not out.getvalue(): continue
        got=[tuple(x) for x in GP.parse_jelly_flat(io.BytesIO(out.getvalue()))]
    except Exception as e:
        exc[repr(e)[:80]]=exc.get(repr(e)[:80],0)+1; continue
    tot+=1
    if [norm(x) for x in got]!=[norm(tuple(x)) for x in stmts]:
        bad+=1
        if bad<4: print("MISMATCH",cls.__name__,preset,delim,len(stmts)); 
print("ok cases",tot,"bad",bad,"exceptions",exc)
