import sys; sys.path.insert(0,'/repo')
import io
from pyjelly import jelly
from pyjelly.integrations.generic.parse import parse_jelly_flat, parse_jelly_grouped
from pyjelly.integrations.rdflib.parse import parse_jelly_flat as rflat, parse_jelly_grouped as rgrouped
from google.protobuf.proto import serialize_length_prefixed
from contextvars import ContextVar
R=jelly.RdfStreamRow
def frame(rows, md=None): 
    f=jelly.RdfStreamFrame(rows=rows)
    if md: 
        for k,v in md.items(): f.metadata[k]=v
    return f
def delim(frames):
    out=io.BytesIO()
    for f in frames: serialize_length_prefixed(f,out)
    return out.getvalue()
def opts(**kw):
    d=dict(physical_type=1, max_name_table_size=8, max_prefix_table_size=2, max_datatype_table_size=2, version=2, logical_type=1, stream_name="s")
    d.update(kw); return R(options=jelly.RdfStreamOptions(**d))
name=lambda i,v: R(name=jelly.RdfNameEntry(id=i,value=v))
pref=lambda i,v: R(prefix=jelly.RdfPrefixEntry(id=i,value=v))
dt=lambda i,v: R(datatype=jelly.RdfDatatypeEntry(id=i,value=v))
iri=lambda p,n: jelly.RdfIri(prefix_id=p,name_id=n)
T=lambda **k: R(triple=jelly.RdfTriple(**k))
frames=[
 frame([]), frame([], {"k":b"v0"}) if False else frame([]),
 frame([opts(), pref(2,"http://a/b"), name(5,"/c"), name(0,"x"), name(3,"")], {"m":b"1"}),
 frame([opts(), pref(1,""), T(s_iri=iri(2,5), p_iri=iri(0,0), o_iri=iri(1,3))]),   # s= http://a/b/c ; p = http://a/b x ; o = ""+""
 frame([]),
 frame([name(5,"/c"), pref(1,"http://a/b"), T(s_iri=iri(1,5)), dt(2,"http://dt"), T(o_literal=jelly.RdfLiteral(lex="7",datatype=2)), opts()], {"m":b"2"}),
 frame([R(namespace=jelly.RdfNamespaceDeclaration(name="",value=iri(0,6))), T(p_bnode="b1", o_literal=jelly.RdfLiteral(lex="",langtag="en"))]),
]
b=delim(frames)
for fn in (parse_jelly_flat, rflat):
    try:
        for x in fn(io.BytesIO(b)): print("  ",x)
    except Exception as e: print("EXC", repr(e))
cv=ContextVar("md")
for fn in (parse_jelly_grouped, rgrouped):
    for i,s in enumerate(fn(io.BytesIO(b), frame_metadata=cv)): print(fn.__module__.split('.')[2], i, len(s), dict(cv.get()))
