import sys; sys.path.insert(0,'/repo')
import io
from pyjelly import jelly
from pyjelly.integrations.generic.generic_sink import *
from pyjelly.integrations.generic.serialize import *
from pyjelly.integrations.generic.parse import parse_jelly_flat, parse_jelly_grouped, parse_jelly_to_graph
from pyjelly.options import *
from pyjelly.serialize.streams import *
from pyjelly.serialize.ioutils import write_delimited, write_single
XSD="http://www.w3.org/2001/XMLSchema#"
def ser(stream, data, delimited=True):
    out=io.BytesIO()
    for f in stream_frames(stream, data):
        (write_delimited if delimited else write_single)(f,out)
    return out.getvalue()
def mk(cls, **kw):
    opts=SerializerOptions(**kw)
    return cls(encoder=GenericSinkTermEncoder(lookup_preset=opts.lookup_preset), options=opts)

# P7 tiny prefix table
t=[Triple(IRI("http://a/x"),IRI("http://b/y"),IRI("http://c/z"))]
for mp in [1,2,3]:
    b=ser(mk(TripleStream, logical_type=1, lookup_preset=LookupPreset(max_names=8,max_prefixes=mp,max_datatypes=4)), iter(t))
    try: print("max_prefixes",mp, list(parse_jelly_flat(io.BytesIO(b))))
    except Exception as e: print("max_prefixes",mp,"EXC",repr(e))
# datatypes tiny with generalized literals
t=[Triple(Literal("1",datatype=XSD+"a"),Literal("2",datatype=XSD+"b"),Literal("3",datatype=XSD+"c"))]
for md in [1,2,3]:
    b=ser(mk(TripleStream, logical_type=1, lookup_preset=LookupPreset(max_names=8,max_prefixes=4,max_datatypes=md)), iter(t))
    try: print("max_datatypes",md, list(parse_jelly_flat(io.BytesIO(b))))
    except Exception as e: print("max_datatypes",md,"EXC",repr(e))

# P8 poison
class Bad: pass
st=mk(TripleStream, logical_type=1, frame_size=1000)
st.enroll()
seq=[Triple(IRI("http://a/s1"),IRI("http://a/p1"),IRI("http://a/o1")),
     Triple(IRI("http://a/s2"),IRI("http://a/p2"),Bad()),
     Triple(IRI("http://a/s2"),IRI("http://a/p2"),IRI("http://a/o3"))]
acc=[]
for s in seq:
    try:
        st.triple(s); acc.append(s)
    except Exception as e: print("rejected", type(e).__name__)
f=st.flow.to_stream_frame(); out=io.BytesIO(); write_delimited(f,out)
try:
    got=list(parse_jelly_flat(io.BytesIO(out.getvalue())))
    print("poison: got",got,"\n   expected",acc, got==acc)
except Exception as e: print("poison decode EXC",repr(e))
