import sys; sys.path.insert(0,'/repo')
import io, random
from pyjelly import jelly
from pyjelly.options import *
from pyjelly.serialize.streams import *
from pyjelly.serialize.ioutils import write_delimited
import pyjelly.integrations.generic.serialize as GS
from pyjelly.integrations.generic.generic_sink import *
from google.protobuf.proto import parse_length_prefixed
XSD="http://www.w3.org/2001/XMLSchema#"
rnd=random.Random(7)
NS=["http://a.org/x/","http://b.org/y#","urn:z:","","http://a.org/x/q/"]
def riri(): return IRI(rnd.choice(NS)+rnd.choice(["a","b","c","d","e","f","g","h","i","j",""]))
def rlit():
    k=rnd.random()
    if k<.3: return Literal(rnd.choice(["","x","y"]))
    if k<.5: return Literal(rnd.choice(["x","y"]), rnd.choice(["en","de-AT"]))
    return Literal(rnd.choice(["1","2"]), None, XSD+rnd.choice(["integer","int","long","byte"]))
def rterm(depth=0):
    k=rnd.random()
    if k<.5: return riri()
    if k<.7: return rlit()
    if k<.85 or depth>1: return BlankNode(rnd.choice(["b1","b2"]))
    return Triple(rterm(depth+1), riri(), rterm(depth+1))
def rg():
    k=rnd.random()
    return DefaultGraph if k<.3 else riri() if k<.8 else BlankNode('g1')
class Audit:
    def __init__(s, o):
        s.N=o.max_name_table_size; s.P=o.max_prefix_table_size; s.D=o.max_datatype_table_size
        s.tab={'name':{}, 'prefix':{}, 'datatype':{}}; s.last={'name':0,'prefix':0,'datatype':0}
        s.lastname=0; s.lastprefix=0; s.prev={}; s.issues=[]
    def entry(s, kind, e):
        i=e.id or s.last[kind]+1
        if e.id and e.id==s.last[kind]+1: s.issues.append(f"missed zero entry id {kind}")
        if e.value in s.tab[kind].values(): s.issues.append(f"redundant {kind} entry {e.value!r}")
        s.tab[kind][i]=e.value; s.last[kind]=i
    def iri(s, m):
        n=m.name_id or s.lastname+1
        if m.name_id and m.name_id==s.lastname+1: s.issues.append("missed zero name id")
        s.lastname=n
        p=m.prefix_id or s.lastprefix
        if m.prefix_id and m.prefix_id==s.lastprefix: s.issues.append("missed zero prefix id")
        if p: s.lastprefix=p
        return ('iri',(s.tab['prefix'][p] if p else "")+s.tab['name'][n])
    def term(s,msg,field):
        v=getattr(msg,field)
        if field.endswith('_iri'): return s.iri(v)
        if field.endswith('_bnode'): return ('b',v)
        if field.endswith('_literal'):
            return ('l',v.lex, v.langtag if v.HasField('langtag') else None, s.tab['datatype'][v.datatype] if v.HasField('datatype') else None)
        if field.endswith('_default_graph'): return ('dg',)
        if field.endswith('_triple_term'): return ('t',)+tuple(s.term(v, v.WhichOneof(o)) for o in ('subject','predicate','object'))
    def stmt(s, m, slots):
        out=[]
        for o in slots:
            f=m.WhichOneof(o)
            if f:
                t=s.term(m,f)
                if s.prev.get(o)==t: s.issues.append(f"missed elision {o} {t}")
                s.prev[o]=t
            out.append(s.prev[o])
        return tuple(out)
tot=0; bad=0
for case in range(1500):
    quads=rnd.random()<.5
    N=rnd.randint(1,40); prev=None; stmts=[]
    for i in range(N):
        s=rterm() if not prev or rnd.random()<.6 else prev[0]
        p=riri() if not prev or rnd.random()<.5 else prev[1]
        o=rterm() if not prev or rnd.random()<.8 else prev[2]
        st=(s,p,o)+((rg() if not prev or rnd.random()<.5 else prev[3],) if quads else ())
        stmts.append(st); prev=st
    preset=LookupPreset(max_names=rnd.choice([8,16,64]), max_prefixes=rnd.choice([0,8,16]), max_datatypes=rnd.choice([4,8]))
    cls=rnd.choice([QuadStream,GraphStream]) if quads else TripleStream
    opts=SerializerOptions(logical_type=2 if quads else 1, frame_size=rnd.choice([1,3,250]), lookup_preset=preset, params=StreamParameters(generalized_statements=True,rdf_star=True))
    st=cls(encoder=GS.GenericSinkTermEncoder(lookup_preset=preset), options=opts)
    out=io.BytesIO()
    try:
        for f in GS.stream_frames(st, ((Quad if quads else Triple)(*x) for x in stmts)): write_delimited(f,out)
    except Exception as e:
        print("EXC", repr(e)); continue
    inp=io.BytesIO(out.getvalue()); a=None
    while (f:=parse_length_prefixed(jelly.RdfStreamFrame, inp)) is not None:
        for r in f.rows:
            k=r.WhichOneof('row')
            if k=='options': a=a or Audit(r.options)
            elif k in ('name','prefix','datatype'): a.entry(k,getattr(r,k))
            elif k=='triple': a.stmt(r.triple,('subject','predicate','object'))
            elif k=='quad': a.stmt(r.quad,('subject','predicate','object','graph'))
            elif k=='graph_start': a.term(r.graph_start, r.graph_start.WhichOneof('graph'))
    tot+=1
    if a.issues:
        bad+=1
        if bad<6: print(cls.__name__, preset, a.issues[:3])
print("streams",tot,"with issues",bad)
