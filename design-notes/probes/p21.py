import sys; sys.path.insert(0,'/repo')
import io, random, itertools, warnings; warnings.filterwarnings("ignore")
from pyjelly.options import *
from pyjelly.serialize.streams import *
import pyjelly.integrations.generic.serialize as GS
from pyjelly.integrations.generic.generic_sink import *
def run(quads, fs, k_frames, lt, n_avail=10**6):
    log=[]
    def src():
        for i in itertools.count(1):
            if i>n_avail: return
            log.append(("PULL",i))
            t=(IRI(f"http://e/{i%7}/s{i%5}"),IRI(f"http://e/p{i%3}"),Literal(str(i%4)))
            yield Quad(*t, IRI(f"http://g/{(i//3)%3}")) if quads else Triple(*t)
    opts=SerializerOptions(logical_type=lt, frame_size=fs, lookup_preset=LookupPreset(max_names=8,max_prefixes=4,max_datatypes=4))
    frames=[]
    g=GS.flat_stream_to_frames(src(), opts)
    for j,f in enumerate(g,1):
        log.append(("FRAME",j,len(f.rows))); frames.append(f)
        if j>=k_frames: break
    # r_i : row index of statement i
    r=[]; idx=0
    for f in frames:
        for row in f.rows:
            idx+=1
            if row.WhichOneof('row') in ('triple','quad'): r.append(idx)
    return log, r
for quads,lt in [(False,1),(True,2)]:
  for fs in [1,2,5,9]:
    for k in [1,2,5]:
        log,r=run(quads,fs,k,lt)
        handed=0; viol=[]; last_pull=0
        for ev in log:
            if ev[0]=="FRAME": handed+=ev[2]
            else:
                i=ev[1]; last_pull=i
                if i>=2:
                    # pending rows when pulling statement i: rows up to statement i-1 minus handed; r may not include i-1 if it's beyond emitted frames
                    if i-2 < len(r):
                        pend=r[i-2]-handed
                        if pend>=fs: viol.append(("c1",i,pend))
        # clause 3
        n_in_frames=len(r)
        if last_pull>n_in_frames: viol.append(("c3", last_pull, n_in_frames))
        print("quads",quads,"fs",fs,"k",k,"pulls",last_pull,"stmts in frames",n_in_frames,"viol",viol[:3])
