import sys; sys.path.insert(0,'/repo')
import io, socket, threading, time
from pyjelly.integrations.generic.generic_sink import *
from pyjelly.integrations.generic.serialize import *
from pyjelly.integrations.generic.parse import parse_jelly_flat
from pyjelly.serialize.streams import *
from pyjelly.serialize.ioutils import write_delimited
def T(i): return Triple(IRI(f"http://ex.org/a/s{i}"), IRI("http://ex.org/b#p"), Literal(f"v{i}"))
frames=list(flat_stream_to_frames((T(i) for i in range(6)), SerializerOptions(logical_type=1, frame_size=4)))
chunks=[]
for f in frames:
    b=io.BytesIO(); write_delimited(f,b); chunks.append(b.getvalue())
print("frames",len(chunks),[len(c) for c in chunks])
def run(mode):
    a,b=socket.socketpair()
    a.sendall(chunks[0])   # only frame 1 arrives; then the producer stalls
    got=[]; 
    def reader():
        src = b.makefile('rb') if mode=="buffered" else b.makefile('rb', buffering=0)
        try:
            for x in parse_jelly_flat(src): got.append(x)
        except Exception as e: got.append(("EXC",repr(e)))
    t=threading.Thread(target=reader,daemon=True); t.start(); t.join(1.5)
    print(mode, "yielded while stalled:", len(got), "reader still blocked:", t.is_alive())
    a.close(); t.join(1); 
    print("   after producer closes:", len(got))
run("raw"); run("buffered")
