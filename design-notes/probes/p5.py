import sys; sys.path.insert(0,'/repo')
import io, hashlib
import rdflib
from rdflib import Dataset, Graph, URIRef, Literal, BNode
from pyjelly.integrations.rdflib.serialize import *
from pyjelly.integrations.rdflib.parse import Quad, Triple
from pyjelly.serialize.ioutils import write_delimited
from pyjelly.serialize.streams import *
from pyjelly import jelly
quads=[Quad(URIRef(f"http://e/s{i}"),URIRef("http://e/p"),Literal(i),URIRef(f"http://e/g{i%4}")) for i in range(12)]
for cls,lt in [(QuadStream,2),(GraphStream,2)]:
    st=cls.for_rdflib(SerializerOptions(logical_type=lt))
    out=io.BytesIO()
    for f in stream_frames(st,(q for q in quads)): write_delimited(f,out)
    print(cls.__name__, hashlib.sha1(out.getvalue()).hexdigest())
