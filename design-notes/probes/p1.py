import sys; sys.path.insert(0,'/repo')
import io
import pyjelly; print(pyjelly.__file__)
from pyjelly import jelly
from pyjelly.integrations.generic.generic_sink import *
from pyjelly.integrations.generic.serialize import *
from pyjelly.integrations.generic.parse import parse_jelly_flat, parse_jelly_grouped, parse_jelly_to_graph
from pyjelly.options import *
from pyjelly.serialize.streams import *
from pyjelly.serialize.ioutils import write_delimited, write_single

print("empty frame truthy:", bool(jelly.RdfStreamFrame()))

def T(i): return Triple(IRI(f"http://ex.org/a/s{i}"), IRI("http://ex.org/b#p"), Literal(f"v{i}", datatype="http://www.w3.org/2001/XMLSchema#integer"))
trip=[T(i) for i in range(5)]

# P1 non-delimited + unspecified logical
for lt in [0,1,3,13]:
  for delim in [True, False]:
    try:
        opts=SerializerOptions(logical_type=lt, params=StreamParameters(delimited=delim))
        st=TripleStream(encoder=GenericSinkTermEncoder(lookup_preset=opts.lookup_preset), options=opts)
        frames=list(stream_frames(st, (t for t in trip)))
        print("lt",lt,"delim",delim,"frames",len(frames),"rows",[len(f.rows) for f in frames],"left in flow",len(st.flow), type(st.flow).__name__, getattr(st.flow,'frame_size',None))
    except Exception as e:
        print("lt",lt,"delim",delim,"EXC",type(e).__name__,e)
# P2 frame_size ignored
opts=SerializerOptions(frame_size=2)
st=TripleStream(encoder=GenericSinkTermEncoder(lookup_preset=opts.lookup_preset), options=opts)
print("frame_size opt 2, flow.frame_size", st.flow.frame_size, type(st.flow).__name__)
opts=SerializerOptions(frame_size=2, logical_type=1)
st=TripleStream(encoder=GenericSinkTermEncoder(lookup_preset=opts.lookup_preset), options=opts)
print("frame_size opt 2 + FLAT_TRIPLES, flow.frame_size", st.flow.frame_size, type(st.flow).__name__)
