import sys; sys.path.insert(0,'/repo')
import io
from pyjelly import jelly
from pyjelly.integrations.generic.generic_sink import *
from pyjelly.integrations.generic.serialize import *
from pyjelly.integrations.generic.parse import parse_jelly_flat, parse_jelly_grouped, parse_jelly_to_graph
from pyjelly.options import *
from pyjelly.serialize.streams import *

class Dribble(io.RawIOBase):
    def __init__(self,data,sched): self.d=data; self.pos=0; self.sched=sched; self.i=0; self.reads=0
    def readable(self): return True
    def seekable(self): return False
    def readinto(self,b):
        n=self.sched[self.i%len(self.sched)]; self.i+=1; self.reads+=1
        n=min(n,len(b),len(self.d)-self.pos)
        b[:n]=self.d[self.pos:self.pos+n]; self.pos+=n
        return n

s=GenericStatementSink()
for i in range(5): s.add(Triple(IRI(f"http://ex.org/a/s{i}"), IRI("http://ex.org/b#p"), Literal(f"v{i}")))
s.bind("ex", IRI("http://ex.org/a/"))
out=io.BytesIO(); s.serialize(out); data=out.getvalue()
ref=list(parse_jelly_flat(io.BytesIO(data)))
print(len(data), len(ref))
for sched in [[1],[2],[3],[1,1,5],[4096]]:
    try:
        got=list(parse_jelly_flat(Dribble(data,sched)))
        print(sched, got==ref, len(got))
    except BaseException as e: print(sched,"EXC",type(e).__name__,e)

# namespaces generic
out=io.BytesIO()
opts=SerializerOptions(logical_type=1, params=StreamParameters(namespace_declarations=True))
grouped_stream_to_file((x for x in [s]), out, options=opts)
s2=GenericStatementSink(); s2.parse(io.BytesIO(out.getvalue()))
print("ns in:", list(s.namespaces), "ns out:", list(s2.namespaces), [type(v._iri) for k,v in s2.namespaces])
print([x for x in parse_jelly_flat(io.BytesIO(out.getvalue())) if isinstance(x,Prefix)])
