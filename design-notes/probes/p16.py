import sys; sys.path.insert(0,'/repo')
import io, warnings; warnings.filterwarnings("ignore")
from pyjelly import jelly
from pyjelly.options import *
from pyjelly.serialize.streams import *
import pyjelly.integrations.generic.serialize as GS
import pyjelly.integrations.generic.parse as GP
from pyjelly.integrations.generic.generic_sink import *
def sink(n, off=0, quad=False):
    s=GenericStatementSink()
    for i in range(n):
        t=(IRI(f"http://e/s{off+i}"),IRI("http://e/p"),Literal(str(i)))
        s.add(Quad(*t, IRI(f"http://e/g{i%2}")) if quad else Triple(*t))
    return s
for lt,quad,sizes in [(3,False,[2,0,3,1]),(3,False,[0,2,0,1]),(13,False,[1,1]),(4,True,[2,0,3]),(14,True,[0,2]),(3,True,[2,2]),(1,False,[2,0,3]),(0,False,[2,3])]:
    try:
        frames=list(GS.grouped_stream_to_frames((sink(n,10*k,quad) for k,n in enumerate(sizes)), SerializerOptions(logical_type=lt)))
        desc=[ [r.WhichOneof('row') for r in f.rows] for f in frames]
        print("lt",lt,"quad",quad,"sizes",sizes,"-> frames",len(frames),[sum(1 for x in d if x in('triple','quad')) for d in desc], [d[0] for d in desc])
        out=io.BytesIO()
        from pyjelly.serialize.ioutils import write_delimited
        for f in frames: write_delimited(f,out)
        print("    grouped parse sizes", [len(s) for s in GP.parse_jelly_grouped(io.BytesIO(out.getvalue()))])
    except Exception as e: print("lt",lt,quad,sizes,"EXC",repr(e))
