import sys; sys.path.insert(0,'/repo')
import io, random, threading, hashlib, warnings; warnings.filterwarnings("ignore")
from pyjelly.options import *
from pyjelly.serialize.streams import *
from pyjelly.serialize.ioutils import write_delimited
import pyjelly.integrations.generic.serialize as GS
import pyjelly.integrations.generic.parse as GP
from pyjelly.integrations.generic.generic_sink import *
def workload(seed):
    rnd=random.Random(seed)
    return [Quad(IRI(f"http://n{rnd.randint(0,3)}/s{rnd.randint(0,9)}"),IRI(f"http://p/{rnd.randint(0,4)}"),Literal(str(rnd.randint(0,5)),None,f"http://dt/{rnd.randint(0,3)}"),IRI(f"http://g/{rnd.randint(0,2)}")) for _ in range(300)]
def ser(seed, yield_hook=None):
    st=QuadStream(encoder=GS.GenericSinkTermEncoder(lookup_preset=LookupPreset(max_names=8,max_prefixes=2,max_datatypes=2)), options=SerializerOptions(logical_type=2,frame_size=5,lookup_preset=LookupPreset(max_names=8,max_prefixes=2,max_datatypes=2)))
    out=io.BytesIO()
    for f in GS.stream_frames(st,(q for q in workload(seed))): write_delimited(f,out)
    data=out.getvalue()
    parsed=list(GP.parse_jelly_flat(io.BytesIO(data)))
    return hashlib.sha1(data).hexdigest(), parsed==workload(seed)
solo={s:ser(s) for s in range(8)}
print(all(v[1] for v in solo.values()))
sys.setswitchinterval(1e-6)
res={}
def worker(s):
    for rep in range(20):
        r=ser(s)
        if r!=solo[s]: res.setdefault(s,0); res[s]+=1
ths=[threading.Thread(target=worker,args=(s,)) for s in range(8)]
[t.start() for t in ths]; [t.join() for t in ths]
print("threaded mismatches", res)
# interleaved generators
gens={}
outs={s:io.BytesIO() for s in range(8)}
for s in range(8):
    st=QuadStream(encoder=GS.GenericSinkTermEncoder(lookup_preset=LookupPreset(max_names=8,max_prefixes=2,max_datatypes=2)), options=SerializerOptions(logical_type=2,frame_size=5,lookup_preset=LookupPreset(max_names=8,max_prefixes=2,max_datatypes=2)))
    gens[s]=GS.stream_frames(st,(q for q in workload(s)))
rnd=random.Random(1); live=list(gens)
while live:
    s=rnd.choice(live)
    try: write_delimited(next(gens[s]),outs[s])
    except StopIteration: live.remove(s)
print("interleaved mismatches",[s for s in range(8) if hashlib.sha1(outs[s].getvalue()).hexdigest()!=solo[s][0]])
