"""Throw-away random *legal* Jelly producer (rdf_pb2-based) vs pyjelly's parsers."""
import sys; sys.path.insert(0,'/repo')
import io, random, warnings; warnings.filterwarnings("ignore")
import rdflib; rdflib.NORMALIZE_LITERALS=False
from pyjelly import jelly
from google.protobuf.proto import serialize_length_prefixed
import pyjelly.integrations.generic.parse as GP
import pyjelly.integrations.rdflib.parse as RP
from pyjelly.integrations.generic.generic_sink import *
R=jelly.RdfStreamRow
class Tab:
    def __init__(s,size,rnd): s.size=size; s.slots={}; s.last_entry=0; s.rnd=rnd; s.pinned=set()
    def find(s,v): 
        c=[i for i,x in s.slots.items() if x==v]
        return s.rnd.choice(c) if c else None
    def assign(s,v,rows,mk):
        # choose slot: free, or any non-pinned
        cand=[i for i in range(1,s.size+1) if i not in s.pinned]
        free=[i for i in cand if i not in s.slots]
        pol=s.rnd.random()
        if s.last_entry+1 in cand and pol<.4: i=s.last_entry+1
        elif free and pol<.8: i=s.rnd.choice(free)
        else: i=s.rnd.choice(cand)
        eid = 0 if (i==s.last_entry+1 and s.rnd.random()<.7) else i
        rows.append(mk(eid,v)); s.slots[i]=v; s.last_entry=i
        return i
class Prod:
    def __init__(s,rnd,phys,N,P,D,ver):
        s.rnd=rnd; s.phys=phys; s.n=Tab(N,rnd); s.p=Tab(P,rnd); s.d=Tab(D,rnd); s.ln=0; s.lp=0; s.prev={}; s.ver=ver
    def unpin(s): s.n.pinned.clear(); s.p.pinned.clear(); s.d.pinned.clear()
    def iri(s,v,rows):
        rnd=s.rnd
        if s.p.size==0: pre,nm="",v
        else:
            k=rnd.random()
            cut = rnd.randint(0,len(v)) if k<.5 else (max(v.rfind('/'),v.rfind('#'))+1)
            pre,nm=v[:cut],v[cut:]
        # name
        ni=s.n.find(nm)
        if ni is None or rnd.random()<.1: ni=s.n.assign(nm,rows,lambda i,x:R(name=jelly.RdfNameEntry(id=i,value=x)))
        s.n.pinned.add(ni)
        name_id = 0 if (ni==s.ln+1 and rnd.random()<.7) else ni
        s.ln=ni
        # prefix
        if s.p.size==0: pid=0
        elif pre=="" and s.lp==0 and rnd.random()<.7: pid=0
        else:
            pi=s.p.find(pre)
            if pi is None or rnd.random()<.1: pi=s.p.assign(pre,rows,lambda i,x:R(prefix=jelly.RdfPrefixEntry(id=i,value=x)))
            s.p.pinned.add(pi)
            pid = 0 if (pi==s.lp and rnd.random()<.7) else pi
            s.lp=pi
        return jelly.RdfIri(prefix_id=pid,name_id=name_id)
    def lit(s,t,rows):
        _,lex,lang,dt=t
        if lang: return jelly.RdfLiteral(lex=lex,langtag=lang)
        if dt:
            di=s.d.find(dt)
            if di is None or s.rnd.random()<.1: di=s.d.assign(dt,rows,lambda i,x:R(datatype=jelly.RdfDatatypeEntry(id=i,value=x)))
            s.d.pinned.add(di)
            return jelly.RdfLiteral(lex=lex,datatype=di)
        return jelly.RdfLiteral(lex=lex)
    def setterm(s,msg,slot,t,rows):
        if t[0]=='iri': getattr(msg,slot+"_iri").CopyFrom(s.iri(t[1],rows))
        elif t[0]=='bnode': setattr(msg,slot+"_bnode",t[1])
        elif t[0]=='lit': getattr(msg,slot+"_literal").CopyFrom(s.lit(t,rows))
        elif t[0]=='default': getattr(msg,slot+"_default_graph").CopyFrom(jelly.RdfDefaultGraph())
    def stmt(s,st,rows,msg,slots):
        s.unpin()
        for slot,t in zip(slots,st):
            if s.prev.get(slot)==t and s.rnd.random()<.7: continue
            s.setterm(msg,slot,t,rows); s.prev[slot]=t
XSD="http://www.w3.org/2001/XMLSchema#"
def gen_terms(rnd):
    NS=["http://a.org/x/","http://b.org/y#","urn:z:",""]
    def riri(): return ('iri', rnd.choice(NS)+rnd.choice(["a","b","c","d","e","f","g","h","ij","k/l#m",""]))
    def rlit():
        k=rnd.random()
        if k<.3: return ('lit', rnd.choice(["","x","y"]), None, None)
        if k<.5: return ('lit', rnd.choice(["x","y"]), rnd.choice(["en","de-AT"]), None)
        return ('lit', rnd.choice(["1","2"]), None, "http://dt/"+rnd.choice("abcdef"))
    return riri,rlit
def to_generic(t):
    if t[0]=='iri': return IRI(t[1])
    if t[0]=='bnode': return BlankNode(t[1])
    if t[0]=='lit': return Literal(t[1],t[2],t[3])
    return DefaultGraph
def run(seed):
    rnd=random.Random(seed); riri,rlit=gen_terms(rnd)
    phys=rnd.choice([1,2,3]); N=rnd.choice([8,9,12,64]); P=rnd.choice([0,4,5,16]); D=rnd.choice([1,2,8])
    ver=rnd.choice([1,2])
    n=rnd.randint(1,40); stmts=[]; prev=None
    for i in range(n):
        s_=(riri() if rnd.random()<.7 else ('bnode',rnd.choice(["b1","b2"]))) if not prev or rnd.random()<.6 else prev[0]
        p_=riri() if not prev or rnd.random()<.5 else prev[1]
        o_=(riri() if rnd.random()<.4 else rlit()) if not prev or rnd.random()<.8 else prev[2]
        st=(s_,p_,o_)
        if phys!=1:
            g_=(('default',) if rnd.random()<.3 else riri() if rnd.random()<.8 else ('bnode','g1')) if not prev or rnd.random()<.4 else prev[3]
            st+=(g_,)
        stmts.append(st); prev=st
    pr=Prod(rnd,phys,N,P,D,ver)
    opt=R(options=jelly.RdfStreamOptions(physical_type=phys,max_name_table_size=N,max_prefix_table_size=P,max_datatype_table_size=D,version=ver,logical_type=rnd.choice([0,1] if phys==1 else [0,2]),stream_name=rnd.choice(["","n"])))
    rows=[opt]; expected=[]
    cur_g=None
    for st in stmts:
        if rnd.random()<.05: rows.append(opt)
        if ver==2 and rnd.random()<.1:
            pr.unpin(); v=riri()[1]; ir=pr.iri(v,rows); rows.append(R(namespace=jelly.RdfNamespaceDeclaration(name=rnd.choice(["","ex"]),value=ir))); expected.append(('ns',v))
        if phys==1:
            m=jelly.RdfTriple(); pr.stmt(st,rows,m,("s","p","o")); rows.append(R(triple=m))
        elif phys==2:
            m=jelly.RdfQuad(); pr.stmt(st,rows,m,("s","p","o","g")); rows.append(R(quad=m))
        else:
            if cur_g!=st[3] or rnd.random()<.2:
                if cur_g is not None: rows.append(R(graph_end=jelly.RdfGraphEnd()))
                gs=jelly.RdfGraphStart(); pr.unpin(); pr.setterm(gs,"g",st[3],rows); rows.append(R(graph_start=gs)); cur_g=st[3]
            m=jelly.RdfTriple(); pr.stmt(st[:3],rows,m,("s","p","o")); rows.append(R(triple=m))
        expected.append(st)
    if phys==3 and cur_g is not None: rows.append(R(graph_end=jelly.RdfGraphEnd()))
    # frames
    frames=[]; cur=[]
    for r in rows:
        cur.append(r)
        if rnd.random()<.3: frames.append(cur); cur=[]
        if rnd.random()<.05: frames.append([])
    frames.append(cur)
    if rnd.random()<.3: frames.insert(0,[])
    out=io.BytesIO()
    for f in frames: serialize_length_prefixed(jelly.RdfStreamFrame(rows=f),out)
    data=out.getvalue()
    exp=[ (Prefix if False else None) for _ in ()]
    def norm_g(x):
        if isinstance(x,Prefix): return ('ns', x.iri._iri if isinstance(x.iri._iri,str) else x.iri._iri._iri)
        return tuple(x)
    expg=[('ns',e[1]) if e[0]=='ns' else tuple(to_generic(t) for t in e) for e in expected]
    try:
        got=[norm_g(x) for x in GP.parse_jelly_flat(io.BytesIO(data))]
    except Exception as e:
        return ("generic EXC "+repr(e), seed)
    if got!=expg: return ("generic MISMATCH", seed, len(got), len(expg))
    try:
        gr=list(RP.parse_jelly_flat(io.BytesIO(data)))
    except Exception as e:
        return ("rdflib EXC "+repr(e), seed)
    if len(gr)!=len(expg): return ("rdflib LEN", seed)
    for a,b in zip(gr,expected):
        if b[0]=='ns':
            if str(a[1])!=b[1]: return ("rdflib ns", seed)
            continue
        for x,t in zip(a,b):
            if t[0]=='iri' and not (type(x).__name__=='URIRef' and str(x)==t[1]): return ("rdflib iri",seed,x,t)
            if t[0]=='lit' and not (str(x)==t[1] and x.language==t[2] and (str(x.datatype) if x.datatype else None)==t[3]): return ("rdflib lit",seed,x,t)
            if t[0]=='bnode' and str(x)!=t[1]: return ("rdflib bnode",seed)
            if t[0]=='default' and str(x)!="urn:x-rdflib:default": return ("rdflib dg",seed,x)
    return None
bad={}
for seed in range(6000):
    r=run(seed)
    if r: bad.setdefault(r[0][:60],[]).append(r)
print({k:(len(v),v[0]) for k,v in bad.items()})
