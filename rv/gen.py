"""Seeded workload generators (neutral term model).  No hash-order dependence."""
from __future__ import annotations

import hashlib
import random
from typing import Any

from .refdec import XSD_STRING
from .terms import row_need

XSD = "http://www.w3.org/2001/XMLSchema#"

NAMESPACES = [
    "http://ex.org/ns/", "http://ex.org/v#", "http://ex.org/", "urn:a:",
    "http://ex.org/ns/sub/", "http://é.example/ł#", "http://ex.org/p/x#",
    "https://w3id.org/long/path/segment/", "http://ex.org/a#b/",
]
LOCALS = ["a", "b", "c", "g", "name", "a1", "a2", "é", "", "x-y", "knows", "Z"]
LEXES = ["", "a", "hello", "héllo wörld", "1", "42", "x\ny", "😀", "a" * 40, " "]
LANGS_11 = ["en", "pl", "en-gb", "de"]
LANGS_GEN = ["en", "pl", "en-GB", "en-gb", "DE", "de", "x-private"]
DATATYPES_UNKNOWN = [
    "http://ex.org/dt/a", "http://ex.org/dt/b", "urn:dt:c", "http://ex.org/dt#d",
    "dtnosep", "http://ex.org/dt/é",
]
BNODES = ["b0", "b1", "b2", "b3", "n-4", "B5", "a", "g", "_:b1", "n1", "_:n1"]    # labels are opaque: "_:n1" and "n1" differ     # "a", "g": also IRIs without separator and lexical forms
BNODES_GEN = BNODES + ["", "b é"]      # generic API only: any string is a label
LANG_SPELLINGS = [["en", "EN"], ["pl"], ["en-gb", "en-GB"], ["de", "DE", "De"]]


def rng_for(*parts: Any) -> random.Random:
    h = hashlib.sha256(repr(parts).encode()).digest()
    return random.Random(int.from_bytes(h[:8], "big"))


def case_hash(obj: Any) -> str:
    return hashlib.sha256(repr(obj).encode()).hexdigest()[:16]


class Vocab:
    """A small biased vocabulary so that hits, misses and evictions all occur."""

    def __init__(self, rng: random.Random, mode: str = "generic",
                 n_ns: int | None = None, n_local: int | None = None,
                 n_dt: int | None = None):
        self.rng = rng
        self.mode = mode
        n_ns = n_ns if n_ns is not None else rng.randint(1, 6)
        n_local = n_local if n_local is not None else rng.randint(3, 12)
        n_dt = n_dt if n_dt is not None else rng.randint(1, 6)
        self.ns = rng.sample(NAMESPACES, min(n_ns, len(NAMESPACES)))
        self.locals = rng.sample(LOCALS, min(n_local, len(LOCALS)))
        self.extra_locals = [f"k{i}" for i in range(rng.choice([0, 0, 5, 30, 150]))]
        dts = rng.sample(DATATYPES_UNKNOWN, min(n_dt, len(DATATYPES_UNKNOWN)))
        self.datatypes = dts + [XSD_STRING] + ([XSD + "integer"] if rng.random() < .5 else []) + \
            ([XSD + "boolean"] if rng.random() < .4 else [])
        # rdf11: ONE spelling per language tag per input (rdflib compares tags case-insensitively), but not always lower case
        self.langs = [rng.choice(sp) for sp in LANG_SPELLINGS] if mode == "rdf11" else LANGS_GEN
        self.p_sepless = rng.choice([0.0, 0.1, 0.3])
        self.hot = rng.random() < 0.5

    def _pick(self, seq):
        if self.hot and self.rng.random() < 0.6:
            return seq[0]
        return self.rng.choice(seq)

    def iri(self) -> tuple:
        r = self.rng
        if r.random() < self.p_sepless:
            # an IRI without '/' or '#': drawn from the same alphabet as local names
            cand = [x for x in self.locals if x] or ["g"]
            loc = r.choice(cand)
            return ("iri", loc if r.random() < .7 else "urn:" + loc.replace("/", ""))
        ns = self._pick(self.ns)
        pool = self.locals + self.extra_locals
        loc = self._pick(pool) if r.random() < .8 else r.choice(pool)
        if self.mode == "rdf11" and ns + loc == "":
            loc = "a"
        return ("iri", ns + loc)

    def bnode(self) -> tuple:
        if self.mode != "rdf11" and self.rng.random() < .12:
            # a label that is, as a string, one of the stream's IRIs (kinds must not be confused by value)
            return ("bnode", self.iri()[1])
        return ("bnode", self.rng.choice(BNODES if self.mode == "rdf11" else BNODES_GEN))

    def literal(self) -> tuple:
        r = self.rng
        k = r.random()
        lex = r.choice(LEXES)
        if k < 0.3:
            return ("lit", lex, None, None)
        if k < 0.5:
            return ("lit", lex, r.choice(self.langs), None)
        dt = self._pick(self.datatypes)
        if dt == XSD + "integer":
            lex = r.choice(["0", "0", "1", "42", "-7"])
        elif dt == XSD + "boolean":
            lex = r.choice(["false", "false", "true"])
        return ("lit", lex, None, dt)

    def quoted(self, depth: int) -> tuple:
        return ("triple", self.term("s", depth), self.term("p", depth), self.term("o", depth))

    def term(self, slot: str, depth: int = 0) -> tuple:
        r = self.rng
        if self.mode == "rdf11":
            if slot == "s":
                return self.iri() if r.random() < .75 else self.bnode()
            if slot == "p":
                return self.iri()
            if slot == "o":
                x = r.random()
                return self.iri() if x < .45 else self.literal() if x < .85 else self.bnode()
            x = r.random()
            if x > .97:     # an ordinary IRI that merely starts like rdflib's name for the default graph
                return ("iri", "urn:x-rdflib:default-2")
            return ("default",) if x < .3 else self.iri() if x < .8 else self.bnode()
        # generalised + RDF-star
        if slot == "g":
            x = r.random()
            return (("default",) if x < .25 else self.iri() if x < .7 else
                    self.bnode() if x < .9 else self.literal())
        x = r.random()
        if depth < 3 and x < (0.10 if slot != "p" else 0.03):
            return self.quoted(depth + 1)
        if slot == "p":
            return self.iri() if x < .85 else self.literal() if x < .93 else self.bnode()
        return (self.iri() if x < .55 else self.literal() if x < .85 else self.bnode())


def statements(rng: random.Random, n: int, arity: int, mode: str = "generic",
               vocab: Vocab | None = None, p_repeat: float | None = None,
               graph_runs: bool = True) -> list[tuple]:
    v = vocab or Vocab(rng, mode)
    if p_repeat is None:
        p_repeat = rng.choice([0.0, 0.2, 0.5, 0.8])
    out: list[tuple] = []
    prev: tuple | None = None
    slots = "spog"[:arity]
    g_run: tuple | None = None
    for _ in range(n):
        if prev is not None and rng.random() < 0.05:
            out.append(prev)           # exact duplicate
            continue
        st = []
        for i, slot in enumerate(slots):
            if slot == "g" and graph_runs and g_run is not None and rng.random() < .7:
                st.append(g_run)
                continue
            if prev is not None and rng.random() < p_repeat:
                t = prev[i]
                if t[0] == "lit" and rng.random() < .25:
                    t = near_twin(rng, t, mode)      # equal-looking but different term right after the original
                st.append(t)
            else:
                st.append(v.term(slot))
        if arity == 4:
            g_run = st[3]
        prev = tuple(st)
        out.append(prev)
    return out


def near_twin(rng: random.Random, t: tuple, mode: str) -> tuple:
    """A literal that differs from t only in a detail an over-eager equality might ignore."""
    _, lex, lang, dt = t
    if lang and mode != "rdf11":
        swapped = lang.swapcase() if lang.swapcase() != lang else lang
        return ("lit", lex, rng.choice([swapped, lang.upper(), lang.lower()]), None)
    if not lang and not dt:
        return ("lit", lex, None, XSD_STRING) if rng.random() < .5 else ("lit", lex + " ", None, None)
    if dt == XSD_STRING:
        return ("lit", lex, None, None)
    if dt:
        return ("lit", lex, None, dt + "x") if rng.random() < .5 else ("lit", lex, None, None)
    return t


def need_of(stmts: list[tuple], physical: int, prefixes_enabled: bool,
            ns_events: list | None = None) -> tuple[int, int, int]:
    """Max over rows of distinct (prefix, name, datatype) entries a row needs."""
    mp = mn = md = 0
    for st in stmts:
        if physical == 3 and len(st) == 4:
            rows = [st[:3], (st[3],)]
        else:
            rows = [st]
        for terms in rows:
            p, n, d = row_need(terms, prefixes_enabled)
            mp, mn, md = max(mp, p), max(mn, n), max(md, d)
    for ev in ns_events or ():
        p, n, d = row_need((("iri", ev[2]),), prefixes_enabled)
        mp, mn, md = max(mp, p), max(mn, n), max(md, d)
    return mp, mn, md


def preset_for(rng: random.Random, stmts: list[tuple], physical: int,
               ns_events: list | None = None, small_bias: float = 0.6) -> tuple[int, int, int]:
    """(max_names, max_prefixes, max_datatypes) with every enabled table >= need."""
    pe = rng.random() < 0.8
    np_, nn, nd = need_of(stmts, physical, pe, ns_events)

    def size(need: int, lo: int, zero_ok: bool) -> int:
        need = max(need, lo)
        x = rng.random()
        if zero_ok and x < 0.12:
            return 0
        if x < small_bias:
            return need + rng.choice([0, 0, 1, 2, 3])
        return rng.choice([need + 5, 16, 32, 70, 100, 128, 150, 4000, 4096]) if need <= 16 else need + rng.choice([5, 100])

    max_names = max(size(nn, 8, False), nn, 8)
    if not pe:
        max_prefixes = 0
    else:
        max_prefixes = max(size(np_, 1, False), np_, 1)
    max_datatypes = size(nd, 1, nd == 0)
    if nd and max_datatypes < nd:
        max_datatypes = nd
    return min(max_names, 4096), min(max_prefixes, 4096), min(max_datatypes, 4096)


FRAME_SIZES = [1, 2, 3, 5, 8, 17, 64, 250, 10_000]
