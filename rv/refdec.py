"""Reference Jelly decoder: a state machine written from the serialization rules.

Input: frames as produced by :mod:`rv.wire`.  Output: ordered events in the
neutral term model, the effective options, feature counters, the C19 audit, or
the first :class:`SpecViolation`.  Nothing here imports pyjelly or protobuf.

Neutral terms: ("iri", s) | ("bnode", s) | ("lit", lex, lang|None, dt|None)
| ("triple", s, p, o) | ("default",).  Statement events are
("stmt", (s, p, o)) / ("stmt", (s, p, o, g)); namespace events ("ns", name, iri).
"""
from __future__ import annotations

from collections import Counter
from dataclasses import dataclass, field
from typing import Any

XSD_STRING = "http://www.w3.org/2001/XMLSchema#string"
MAX_TABLE = 4096
MIN_NAMES = 8


class SpecViolation(Exception):
    def __init__(self, kind: str, frame: int, row: int, grow: int, detail: str = ""):
        super().__init__(f"{kind} at frame {frame} row {row} (#{grow}) {detail}")
        self.kind = kind
        self.frame = frame
        self.row = row
        self.grow = grow
        self.detail = detail


def norm_term(t: Any) -> Any:
    """xsd:string-typed literal == plain literal; applied on both sides."""
    if t is None:
        return None
    k = t[0]
    if k == "lit":
        lex, lang, dt = t[1], t[2], t[3]
        if dt == XSD_STRING:
            dt = None
        return ("lit", lex, lang or None, dt or None)
    if k == "triple":
        return ("triple", norm_term(t[1]), norm_term(t[2]), norm_term(t[3]))
    return tuple(t)


def norm_stmt(st: Any) -> tuple:
    return tuple(norm_term(t) for t in st)


@dataclass
class Result:
    options: dict | None = None
    events: list = field(default_factory=list)          # ("stmt", st) | ("ns", name, iri)
    event_pos: list = field(default_factory=list)       # (frame, row, global_row) per event
    per_frame: list = field(default_factory=list)       # list of event lists, one per frame
    frame_meta: list = field(default_factory=list)
    violation: SpecViolation | None = None
    counters: Counter = field(default_factory=Counter)
    audit: Counter = field(default_factory=Counter)
    audit_samples: list = field(default_factory=list)
    rows_total: int = 0
    rows_per_frame: list = field(default_factory=list)
    checked: Counter = field(default_factory=Counter)   # how many clauses were validated

    @property
    def statements(self) -> list:
        return [e[1] for e in self.events if e[0] == "stmt"]

    @property
    def namespaces(self) -> list:
        return [(e[1], e[2]) for e in self.events if e[0] == "ns"]


class _Table:
    __slots__ = ("size", "slots", "last_entry", "name")

    def __init__(self, name: str, size: int):
        self.name = name
        self.size = size
        self.slots: dict[int, str] = {}
        self.last_entry = 0


class RefDecoder:
    def __init__(self, strict_graphs: bool = True, max_table: int | None = None):
        self.strict = strict_graphs
        self.max_table = MAX_TABLE if max_table is None else max_table
        self.res = Result()
        self.opts: dict | None = None
        self.N = self.P = self.D = None
        self.ln = 0   # last resolved name id
        self.lp = 0   # last resolved prefix id
        self.prev: dict[str, Any] = {"s": None, "p": None, "o": None, "g": None}
        self.open: Any = None
        self.closed_graph: Any = None  # term of the graph closed immediately before
        self.fi = -1
        self.ri = -1
        self.grow = 0

    # ------------------------------------------------------------- helpers
    def _bad(self, kind: str, detail: str = ""):
        raise SpecViolation(kind, self.fi, self.ri, self.grow, detail)

    def _audit(self, kind: str, detail: Any = None):
        self.res.audit[kind] += 1
        if len(self.res.audit_samples) < 20:
            self.res.audit_samples.append(
                {"kind": kind, "frame": self.fi, "row": self.ri, "detail": detail}
            )

    # ------------------------------------------------------------- rows
    def _options(self, o: dict):
        c = self.res.checked
        if self.opts is None:
            if o["physical_type"] not in (1, 2, 3):
                self._bad("bad-physical-type", str(o["physical_type"]))
            if o["version"] not in (1, 2):
                self._bad("bad-version", str(o["version"]))
            for key in ("max_name_table_size", "max_prefix_table_size",
                        "max_datatype_table_size"):
                if o[key] > self.max_table:
                    self._bad("table-too-large", f"{key}={o[key]}")
            if o["max_name_table_size"] < MIN_NAMES:
                self._bad("name-table-too-small", str(o["max_name_table_size"]))
            self.opts = dict(o)
            self.res.options = dict(o)
            self.N = _Table("name", o["max_name_table_size"])
            self.P = _Table("prefix", o["max_prefix_table_size"])
            self.D = _Table("datatype", o["max_datatype_table_size"])
            c["options-first"] += 1
        else:
            if o != self.opts:
                diff = {k: (self.opts[k], o[k]) for k in o if o[k] != self.opts[k]}
                self._bad("options-changed", repr(diff))
            self.res.counters["options-repeat"] += 1
            c["options-identical"] += 1

    def _entry(self, t: _Table, e: dict):
        eid = e["id"]
        if eid == 0:
            actual = t.last_entry + 1
            self.res.counters[f"{t.name}-entry-zero-id"] += 1
        else:
            actual = eid
            if eid == t.last_entry + 1:
                self._audit("missed-zero-entry-id", {"table": t.name, "id": eid})
        if not (1 <= actual <= t.size):
            self._bad("entry-id-out-of-range", f"{t.name} id={actual} size={t.size}")
        value = e["value"]
        if value in t.slots.values():
            self._audit("redundant-entry", {"table": t.name, "value": value})
        if actual in t.slots:
            self.res.counters[f"{t.name}-eviction"] += 1
        t.slots[actual] = value
        t.last_entry = actual
        self.res.counters[f"{t.name}-entry"] += 1
        self.res.checked["entry-id-range"] += 1

    def _iri(self, term: tuple) -> tuple:
        _, pid, nid = term
        c = self.res.counters
        # name
        if nid == 0:
            k = self.ln + 1
            c["name-zero-id"] += 1
        else:
            k = nid
            if nid == self.ln + 1:
                self._audit("missed-zero-name-id", {"id": nid})
        if not (1 <= k <= self.N.size):
            self._bad("name-ref-out-of-range", f"id={k} size={self.N.size}")
        if k not in self.N.slots:
            self._bad("name-ref-unfilled", f"id={k}")
        self.ln = k
        name = self.N.slots[k]
        # prefix
        if pid == 0:
            q = self.lp
            if q:
                c["prefix-zero-id"] += 1
        else:
            q = pid
            if pid == self.lp:
                self._audit("missed-zero-prefix-id", {"id": pid})
            elif self.lp == 0 and self.P.slots.get(pid) == "":
                # no prefix referenced yet: id 0 already denotes the empty prefix
                self._audit("missed-zero-prefix-id", {"id": pid, "at": "stream-start-empty-prefix"})
        if q == 0:
            prefix = ""
            c["iri-no-prefix"] += 1
        else:
            if not (1 <= q <= self.P.size):
                self._bad("prefix-ref-out-of-range", f"id={q} size={self.P.size}")
            if q not in self.P.slots:
                self._bad("prefix-ref-unfilled", f"id={q}")
            self.lp = q
            prefix = self.P.slots[q]
        self.res.checked["iri-refs"] += 1
        return ("iri", prefix + name)

    def _literal(self, term: tuple) -> tuple:
        _, lex, kind, payload = term
        if kind == "lang":
            return ("lit", lex, payload, None)
        if kind == "dt":
            if payload == 0:
                self._bad("datatype-ref-zero")
            if self.D.size == 0:
                self._bad("datatype-table-disabled", f"id={payload}")
            if not (1 <= payload <= self.D.size):
                self._bad("datatype-ref-out-of-range", f"id={payload} size={self.D.size}")
            if payload not in self.D.slots:
                self._bad("datatype-ref-unfilled", f"id={payload}")
            self.res.checked["datatype-refs"] += 1
            return ("lit", lex, None, self.D.slots[payload])
        return ("lit", lex, None, None)

    def _term(self, term: tuple, depth: int = 0) -> tuple:
        k = term[0]
        if k == "iri":
            return self._iri(term)
        if k == "bnode":
            return ("bnode", term[1])
        if k == "lit":
            return self._literal(term)
        if k == "default":
            return ("default",)
        if k == "triple":
            self.res.counters["quoted-triple"] += 1
            if depth:
                self.res.counters["quoted-triple-nested"] += 1
            body = term[1]
            parts = []
            for slot in ("s", "p", "o"):
                t = body.get(slot)
                if t is None:
                    self._bad("quoted-incomplete", f"slot {slot} depth {depth + 1}")
                parts.append(self._term(t, depth + 1))
            self.res.checked["quoted-complete"] += 1
            return ("triple", *parts)
        self._bad("unknown-term-kind", str(k))
        raise AssertionError

    def _statement(self, body: dict, slots: str) -> tuple:
        out = []
        for slot in slots:
            t = body.get(slot)
            if t is None:
                if self.prev[slot] is None:
                    self._bad("repeat-without-previous", f"slot {slot}")
                self.res.counters["elision"] += 1
                self.res.checked["elision-has-previous"] += 1
                out.append(self.prev[slot])
            else:
                v = self._term(t)
                if self.prev[slot] is not None and norm_term(v) == norm_term(self.prev[slot]):
                    self._audit("missed-elision", {"slot": slot, "term": v})
                self.prev[slot] = v
                out.append(v)
        return tuple(out)

    def _row(self, row: tuple, events: list):
        kind, body = row[0], row[1]
        if self.opts is None and kind != "options":
            self._bad("missing-options", f"first row is {kind}")
        phys = self.opts["physical_type"] if self.opts else 0
        if kind == "options":
            self._options(body)
        elif kind == "name":
            self._entry(self.N, body)
        elif kind == "prefix":
            self._entry(self.P, body)
        elif kind == "datatype":
            self._entry(self.D, body)
        elif kind == "triple":
            if phys == 2:
                self._bad("row-kind-forbidden", "triple row in QUADS stream")
            if phys == 3 and self.open is None:
                self._bad("triple-outside-graph")
            st = self._statement(body, "spo")
            if phys == 3:
                st = (*st, self.open)
            events.append(("stmt", st))
            self.res.checked["row-kind"] += 1
        elif kind == "quad":
            if phys != 2:
                self._bad("row-kind-forbidden", f"quad row in physical type {phys}")
            st = self._statement(body, "spog")
            events.append(("stmt", st))
            self.res.checked["row-kind"] += 1
        elif kind == "graph_start":
            if phys != 3:
                self._bad("row-kind-forbidden", f"graph_start in physical type {phys}")
            g = body.get("g")
            if g is None:
                self._bad("graph-start-without-term")
            if self.open is not None:
                if self.strict:
                    self._bad("graph-nested")
                self.res.counters["graph-start-while-open"] += 1
            term = self._term(g)
            if self.closed_graph is not None and norm_term(term) == norm_term(self.closed_graph):
                self._audit("split-graph", {"graph": term})
            self.open = term
            self.closed_graph = None
            self.res.counters["graph-start"] += 1
            self.res.checked["bracketing"] += 1
        elif kind == "graph_end":
            if phys != 3:
                self._bad("row-kind-forbidden", f"graph_end in physical type {phys}")
            if self.open is None:
                if self.strict:
                    self._bad("graph-end-unopened")
            self.closed_graph = self.open
            self.open = None
            self.res.checked["bracketing"] += 1
        elif kind == "namespace":
            if self.opts["version"] < 2:
                self._bad("namespace-in-v1")
            v = body.get("value")
            if v is None:
                self._bad("namespace-without-iri")
            iri = self._iri(v)
            events.append(("ns", body.get("name", ""), iri[1]))
            self.res.counters["namespace-row"] += 1
            self.res.checked["namespace-version"] += 1
        elif kind == "empty":
            self._bad("empty-row")
        else:
            self._bad("unknown-row-kind", kind)

    # ------------------------------------------------------------- driver
    def feed(self, frame: dict) -> list:
        self.fi += 1
        events: list = []
        rows = frame.get("rows", [])
        if not rows:
            self.res.counters["empty-frame"] += 1
        if frame.get("metadata"):
            self.res.counters["frame-with-metadata"] += 1
        self.res.frame_meta.append(list(frame.get("metadata", [])))
        n_before = len(self.res.events)
        try:
            for i, row in enumerate(rows):
                self.ri = i
                self.grow += 1
                before = len(events)
                self._row(row, events)
                for ev in events[before:]:
                    self.res.events.append(ev)
                    self.res.event_pos.append((self.fi, i, self.grow))
        finally:
            self.res.per_frame.append(list(self.res.events[n_before:]))
            self.res.rows_per_frame.append(len(rows))
            self.res.rows_total = self.grow
        return events

    def finish(self):
        if self.strict and self.open is not None:
            self.ri = -1
            self._bad("graph-unclosed")
        if self.opts is None and self.fi >= 0 and self.grow == 0:
            pass  # stream of empty frames only: nothing to say


def decode(frames: list[dict], strict_graphs: bool = True, max_table: int | None = None) -> Result:
    """Decode frames; the first violation stops decoding and is stored in the result.

    max_table: reader-side cap on declared table sizes (default 4096, what a conformant reader supports); lifted when the
    question is the internal consistency of a stream written with a larger preset."""
    d = RefDecoder(strict_graphs=strict_graphs, max_table=max_table)
    try:
        for fr in frames:
            d.feed(fr)
        d.finish()
    except SpecViolation as v:
        d.res.violation = v
    return d.res


def decode_bytes(data: bytes, delimited: bool = True, strict_graphs: bool = True) -> Result:
    from . import wire

    return decode(wire.dec_stream(data, delimited), strict_graphs=strict_graphs)
