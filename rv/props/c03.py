"""C03 - every emitted stream is valid Jelly for an independent decoder."""
from __future__ import annotations

from collections import Counter

from .. import gen, pj, refdec, wire, workloads
from .. import terms as T

ID = "C03"
LEVEL = "exploration"
RULE = ("every byte string written by the C01/C02/C14 serializer workloads (generic and rdflib, three physical "
        "types, all entry points, delimited and single-frame, with and without namespace declarations; one case in five with "
        "prefix/datatype tables smaller than a row needs, where the serializer may refuse; one case in six writes 2-5 sinks with "
        "repeating namespace bindings through ONE stream via grouped_stream_to_frames/_to_file; one in seven is the output of a "
        "catch-and-continue caller of stream.triple/quad/graph after a statement was rejected half-way by each cause of C20, "
        "continuing directly or through enroll()) is decoded by "
        "rv.wire + rv.refdec (strict graph bracketing); a SpecViolation of any kind, or decoded statements != input "
        "(sequence for generic input, set for rdflib stores/inputs), is a violation. Non-trivial: >= 2 statements and "
        ">= 1 eviction, elision or zero-form id validated; distinct by hash of (config, statements).")
ASSUMPTIONS = [
    "the reference decoder implements the published Jelly 1.1 serialization rules (DESIGN Appendix A); it is cross-checked against the reference producer on every C04 case and against google.protobuf by tools/selftest_wire.py",
    "namespace IRIs are not compared here (C14 does); only 'namespace rows => version 2' is judged",
]
ANCHORS = ["pyjelly/serialize/encode.py", "pyjelly/serialize/lookup.py", "pyjelly/serialize/streams.py",
           "pyjelly/serialize/flows.py", "pyjelly/serialize/ioutils.py", "pyjelly/options.py"]
MARKERS = {
    "graph-end-row-written": ("pyjelly/serialize/streams.py", r"end_row = jelly\.RdfStreamRow\(graph_end"),
    "namespace-row-written": ("pyjelly/serialize/encode.py", r"RdfStreamRow\(namespace=declaration\)"),
    "write-single": ("pyjelly/serialize/ioutils.py", r"SerializeToString\(deterministic=True\)"),
}
REQUIRED_OBSERVED = ["streams-decoded", "checked:entry-id-range", "checked:iri-refs"]
MANIFEST = {
    "text": "Every stream the serializer workloads write is re-decoded by a decoder that shares no code with pyjelly "
            "(hand-written protobuf wire reader + spec state machine); each clause of the property is a violation kind "
            "of that decoder and the number of entry rows / references / elisions actually validated is reported.",
    "note": "Trusted base: rv.wire and rv.refdec (self-tested against google.protobuf and against rv.refenc). A misreading "
            "of the spec shared by referee and pyjelly would go unnoticed.",
    "technique": "runtime monitoring: independent reference decoder (wire codec + spec state machine) over emitted bytes",
}


def plan(tier: str) -> dict:
    return {"shards": 4, "budget_s": 30} if tier == "quick" else {"shards": 16, "budget_s": 400}


def check_stream(cfg: dict, stmts: list, ns: list, max_table: int | None = None):
    """-> (witness|None, refdec.Result|None)"""
    try:
        if cfg.get("failed_attempt_first") and stmts and not ns and cfg["entry"] != "sink_serialize":
            # the caller's ONE options object was first used for a write that aborted with rows still buffered
            from . import c01, c02
            data = (c01 if cfg["integration"] == "generic" else c02).serialize_after_failed_attempt(cfg, stmts)
        else:
            data = pj.serialize(cfg, stmts, ns)
    except Exception as e:  # noqa: BLE001
        return {"clause": "serializer-raised", "summary": f"{type(e).__name__}: {e}"}, None
    try:
        frames = wire.dec_stream(data, cfg["delimited"])
    except wire.WireError as e:
        return {"clause": "wire-malformed", "summary": str(e), "bytes": data.hex()}, None
    res = refdec.decode(frames, strict_graphs=True, max_table=max_table)
    if res.violation is not None:
        v = res.violation
        return {"clause": f"spec:{v.kind}", "summary": str(v), "bytes": data.hex()}, res
    got = [T.norm_stmt(s) for s in res.statements]
    want = [T.norm_stmt(s) for s in stmts]
    if workloads.input_is_ordered(cfg):
        if got != want:
            i = next((k for k, (a, b) in enumerate(zip(got, want)) if a != b), min(len(got), len(want)))
            return {"clause": "decoded-differs", "bytes": data.hex(),
                    "summary": f"independent decode: len {len(got)} vs input {len(want)}; first diff at {i}: "
                               f"{got[i] if i < len(got) else None} vs {want[i] if i < len(want) else None}"}, res
    else:
        if set(got) != set(want):
            extra = sorted(set(got) - set(want), key=repr)[:2]
            missing = sorted(set(want) - set(got), key=repr)[:2]
            return {"clause": "decoded-differs", "bytes": data.hex(),
                    "summary": f"independent decode (set): extra={extra} missing={missing}"}, res
    if res.namespaces and res.options["version"] != 2:
        return {"clause": "spec:namespace-in-v1", "summary": "namespace rows in a version-1 stream"}, res
    if cfg.get("ns") and ns and not res.namespaces:
        pass  # whether declarations are delivered is C14's question
    return None, res


def check_groups(cfg: dict, groups: list, nss: list):
    """Several sinks through one stream (lookup, repeated-term and delta state carried across sinks)."""
    try:
        data = pj.serialize_groups(cfg, groups, nss)
    except Exception as e:  # noqa: BLE001
        return {"clause": "serializer-raised", "summary": f"{type(e).__name__}: {e}"}, None
    try:
        res = refdec.decode(wire.dec_stream(data, True), strict_graphs=True)
    except wire.WireError as e:
        return {"clause": "wire-malformed", "summary": str(e), "bytes": data.hex()}, None
    if res.violation is not None:
        return {"clause": f"spec:{res.violation.kind}", "summary": str(res.violation), "bytes": data.hex()}, res
    got = [T.norm_stmt(s) for s in res.statements]
    want = [T.norm_stmt(s) for g in groups for s in g]
    if (got != want) if cfg["integration"] == "generic" else (set(got) != set(want)):
        return {"clause": "decoded-differs", "bytes": data.hex(),
                "summary": f"independent decode of a {len(groups)}-sink stream: {len(got)} statements vs {len(want)} written"}, res
    return None, res


def run_shard(ctx):
    i = 0
    checked = Counter()
    oversized_preset_case(ctx, ctx.rng("oversized"))
    while not ctx.out_of_time():
        rng = ctx.rng(i)
        i += 1
        if i % 9 == 4:
            # frames whose length sits on a varint boundary (1->2 and 2->3 byte length prefixes)
            for _k in range(6):
                cfg, stmts, target = workloads.boundary_frame_case(rng)
                w, res = check_stream(cfg, stmts, [])
                ctx.observe("boundary-length-frames")
                if w is not None and w["clause"] != "serializer-raised":
                    w.update({"cfg": cfg, "stmts": T.to_json(stmts), "ns": []})
                    ctx.violation(w)
                elif res is not None:
                    ctx.observe("streams-decoded")
                ctx.case(("boundary", sorted(cfg.items()), target, len(stmts)), False)
            continue
        if i % 7 == 3:
            # bytes produced by a catch-and-continue caller: a statement is rejected half-way (unsupported object, short
            # tuple, string protobuf cannot encode, typed literal without datatype table) and the loop carries on with
            # the same stream.  Whatever is produced must still be a valid stream (C20 judges what it decodes to).
            from . import c20
            for _k in range(4):
                integ, ccfg, cst, dt_dis = c20.make_case(rng)
                pos = rng.randrange(len(cst))
                seq = list(cst)
                if pos + 1 < len(seq):
                    seq[pos + 1] = cst[pos]
                sites = list(c20.fault_sites(integ, ccfg["physical"], cst[pos], dt_dis))
                fault = rng.choice(sites)
                via = rng.choice(c20.CONTINUATIONS[:2])
                try:
                    run = c20.drive(integ, ccfg, seq, pos, fault, None, via)
                    data, res = c20.decode_frames(run["frames"])
                except wire.WireError as e:
                    ctx.violation({"clause": "malformed", "summary": f"catch-and-continue caller: {e}", "kind": "interrupted"})
                    continue
                except Exception as e:  # noqa: BLE001
                    ctx.inconc(f"catch-and-continue driver failed: {type(e).__name__}: {e}")
                    continue
                ctx.observe("catch-and-continue-streams")
                rejected = pos < len(run["outcomes"]) and run["outcomes"][pos][0] == "raised"
                if rejected:
                    ctx.observe(f"catch-and-continue-rejections:{fault[2]}")
                if res.violation is not None:
                    ctx.violation({"clause": "invalid-after-rejection", "kind": "interrupted", "integration": integ, "cfg": ccfg,
                                   "stmts": T.to_json(seq), "fault_at": pos, "fault": list(fault), "via": via, "bytes": data.hex(),
                                   "summary": f"{integ} physical {ccfg['physical']}: after statement #{pos} was rejected ({fault[2]} in "
                                              f"slot {fault[0]}) and the caller carried on ({via}), the produced bytes are not a "
                                              f"valid stream: {res.violation}"})
                else:
                    ctx.observe("streams-decoded")
                ctx.case(("interrupted", integ, sorted(ccfg.items()), seq, pos, fault, via), rejected and len(seq) - pos > 1,
                         sample={"kind": "catch-and-continue", "integration": integ, "cause": fault[2], "position": pos,
                                 "statements": len(seq), "via": via})
            continue
        if i % 6 == 0:
            cfg, groups, nss = workloads.multi_sink_case(rng, with_ns=rng.random() < .7)
            w, res = check_groups(cfg, groups, nss)
            ctx.observe("multi-sink-streams")
            if w is not None and w["clause"] != "serializer-raised":
                w.update({"cfg": cfg, "groups": T.to_json(groups), "nss": nss})
                ctx.violation(w)
            elif res is not None:
                ctx.observe("streams-decoded")
                checked.update(res.checked)
            ctx.case(("multi", sorted(cfg.items()), groups, nss), res is not None and len(groups) >= 2,
                     sample={"kind": "multi-sink", "cfg": cfg, "group_sizes": [len(g) for g in groups],
                             "bindings_per_sink": [len(n) for n in nss]})
            continue
        cfg, stmts, ns = workloads.serializer_case(rng, max_len=50 if ctx.tier == "quick" else rng.choice([50, 50, 300]))
        if cfg["integration"] == "rdflib" and cfg["entry"] in ("flat_frames", "flat_to_file", "stream_frames_gen") and rng.random() < .3:
            # GENERALIZED statements through the rdflib generator entry points (what parse_jelly_flat yields from a generalized
            # file can be written back): literals in subject / predicate position, blank-node predicates
            def gen_term(t, slot):
                r = rng.random()
                if slot in (0, 1) and r < .35:
                    return rng.choice([("lit", "x", None, None), ("lit", "1", None, "http://ex.org/dt/a"), ("lit", "chat", "fr", None)])
                if slot == 1 and r < .5:
                    return ("bnode", "pb")
                return t
            stmts = [tuple(gen_term(t, k) if k < 2 else t for k, t in enumerate(st)) for st in stmts]
            cfg["generalized"] = True
            n_, p_, d_ = cfg["preset"]
            cfg["preset"] = (n_, p_, max(d_, 4))
            ctx.observe("rdflib-generalized-statements")
        if rng.random() < 0.1 and stmts and not ns:
            cfg["failed_attempt_first"] = rng.randint(1, len(stmts))
            ctx.observe("retry-after-failed-attempt-with-same-options-object")
        if rng.random() < 0.2:
            # undersized tables: the serializer may refuse (raise); if it writes, the bytes must still be valid
            n, p, d = cfg["preset"]
            cfg["preset"] = (n, rng.choice([1, 2, 3]) if p else 0, rng.choice([1, 2]) if d else 0)
            ctx.observe("undersized-table-cases")
        w, res = check_stream(cfg, stmts, ns)
        ctx.observe(f"{cfg['integration']}:{cfg['entry']}")
        ctx.observe(f"{cfg['integration']}:physical{cfg['physical']}")
        if w is not None and w["clause"] == "serializer-raised":
            # raising is not a validity question; it is recorded, not judged here (C01/C02 judge it)
            ctx.observe("serializer-raised")
            ctx.case((cfg, stmts), False)
            continue
        if w is not None:
            small = workloads.shrink_list(stmts, lambda s: (check_stream(cfg, s, ns)[0] or {}).get("clause") == w["clause"])
            w2 = check_stream(cfg, small, ns)[0] or w
            w2.update({"cfg": cfg, "stmts": T.to_json(small), "ns": ns})
            ctx.violation(w2)
            ctx.case((cfg, stmts), False)
            continue
        ctx.observe("streams-decoded")
        checked.update(res.checked)
        c = res.counters
        feats = (c["name-eviction"] + c["prefix-eviction"] + c["datatype-eviction"], c["elision"],
                 c["name-zero-id"] + c["prefix-zero-id"] + c["name-entry-zero-id"])
        if c["namespace-row"]:
            ctx.observe("streams-with-namespace-rows")
        if c["graph-start"]:
            ctx.observe("streams-with-graph-brackets")
        if feats[0]:
            ctx.observe("streams-with-eviction")
        ctx.case((sorted(cfg.items()), stmts, ns), len(stmts) >= 2 and any(feats),
                 sample={"cfg": cfg, "n_statements": len(stmts), "first_statement": T.to_json(stmts[:1]),
                         "refdec_counters": dict(c)})
    for k, v in checked.items():
        ctx.observe(f"checked:{k}", v)


def oversized_preset_case(ctx, rng):
    """One stream per shard written with a name table LARGER than 4096 (the writer accepts such presets) and more
    distinct names than 4096: every id must lie within the size the options row declares."""
    size = rng.choice([4500, 5000])
    n = size + 300
    ns = "http://ex.org/big/"
    stmts = [(("iri", f"{ns}s{k}"), ("iri", f"{ns}p{k % 7}"), ("iri", f"{ns}o{(k * 7) % n}")) for k in range(n // 2)]
    cfg = {"integration": rng.choice(["generic", "rdflib"]), "physical": 1, "entry": "flat_to_file", "frame_size": 250,
           "preset": (size, 16, 8), "delimited": True, "logical": 1, "generalized": False, "rdf_star": False, "ns": False,
           "stream_name": ""}
    w, res = check_stream(cfg, stmts, [], max_table=10 ** 6)      # (that READERS refuse such a header is C13's clause)
    ctx.observe("oversized-preset-streams")
    if w is not None and w["clause"] != "serializer-raised":
        w.update({"cfg": cfg, "kind": "oversized-preset", "stmts": T.to_json(stmts[:5]), "ns": [],
                  "note": "witness truncated; re-run ./check C03 with the same VERIF_SEED"})
        ctx.violation(w)
    elif res is not None:
        ctx.observe("streams-decoded")
        if res.counters["name-eviction"]:
            ctx.observe("oversized-preset-streams-with-eviction")
    ctx.case(("oversized-preset", size, cfg["integration"]), res is not None,
             sample={"kind": "oversized-preset", "preset": list(cfg["preset"]), "statements": len(stmts)})


def replay(w: dict):
    if w.get("kind") == "oversized-preset":
        return {"clause": w["clause"], "summary": "re-run ./check C03 with the same VERIF_SEED"}
    if w.get("kind") == "interrupted" and "cfg" not in w:
        return {"clause": w["clause"], "summary": "re-run ./check C03 with the same VERIF_SEED"}
    cfg = w["cfg"]
    cfg["preset"] = tuple(cfg["preset"])
    if w.get("kind") == "interrupted":
        from . import c20
        f = w["fault"]
        run = c20.drive(w["integration"], cfg, list(T.from_json(w["stmts"])), w["fault_at"], (f[0], f[1], f[2]), None, w["via"])
        _data, res = c20.decode_frames(run["frames"])
        return {"clause": "invalid-after-rejection", "summary": str(res.violation)} if res.violation is not None else None
    if "groups" in w:
        groups = [list(g) for g in T.from_json(w["groups"])]
        r = check_groups(cfg, groups, [[tuple(b) for b in n] for n in w["nss"]])[0]
        return r if r and r["clause"] != "serializer-raised" else None
    stmts = list(T.from_json(w["stmts"]))
    ns = [tuple(x) for x in w.get("ns", [])]
    r = check_stream(cfg, stmts, ns)[0]
    return r if r and r["clause"] != "serializer-raised" else None


def classify(w: dict):
    return None
