"""C18 - a statement too big for the lookup tables is refused, not corrupted."""
from __future__ import annotations

import os

from .. import env, gen, pj, refdec, wire
from .. import terms as T

ID = "C18"
LEVEL = "exploration"
RULE = ("statement sequences containing statements whose *need* (distinct prefix / name / datatype entries of one row) "
        "exceeds an enabled table: max_prefixes 1..3 with 2..4 distinct prefixes in one statement, max_datatypes 1..3 with "
        "2..4 distinct datatypes (generalised positions, quoted triples), max_names 8..26 with nested quoted triples of "
        "9..27 distinct names, graph names included; the oversized statement is placed first, mid-stream and after "
        "evictions; Triple/Quad/Graph streams, and the low-level encode_triple / encode_quad functions on a bare TermEncoder; generic "
        "and (for prefixes) rdflib. Oracle: the serializer raises, or BOTH the "
        "independent decoder and pyjelly's parser decode the bytes to exactly the input. Non-trivial: every case whose "
        "oversized row really exceeds the table (overflow >= 1); distinct by (table, overflow, position, config, statements).")
ASSUMPTIONS = ["need is computed by the harness from the split rule (last '#', else last '/')"]
ANCHORS = ["pyjelly/serialize/lookup.py", "pyjelly/serialize/encode.py", "pyjelly/options.py"]
MARKERS = {"writer-eviction-branch": ("pyjelly/serialize/lookup.py", r"popitem\(last=False\)")}
REQUIRED_OBSERVED = ["cases", "table:prefix", "table:datatype", "table:name"]
MIN_NONTRIVIAL = 30
MANIFEST = {
    "text": "Generates statements that need more distinct entries than a tiny table holds and checks that what pyjelly "
            "wrote either decodes (by an independent decoder and by pyjelly itself) to the input, or that serialization "
            "raised.",
    "note": "Sampled (table, overflow, position) triples listed in the evidence; need computed from the documented split rule.",
    "technique": "runtime monitoring: independent decode of bytes written under undersized lookup tables vs. input / exception",
}


def plan(tier: str) -> dict:
    return {"shards": 4, "budget_s": 35} if tier == "quick" else {"shards": 16, "budget_s": 300}


def big_statement(rng, table: str, arity: int, mode: str, k: int):
    """A statement with k distinct entries for `table`."""
    if table == "prefix":
        pre = [f"http://ns{i}.example/" for i in range(k)]
        iris = [("iri", p + "x") for p in pre]
        if rng.random() < .6:
            # entries repeat INSIDE the statement (A B A C ...): an earlier entry is touched again before a new one arrives
            seq = list(range(k))
            while len(seq) < max(arity, k):
                pos = rng.randint(1, len(seq))
                seq.insert(pos, rng.choice(seq[:pos]))
            iris = [iris[j] for j in seq]
        terms = [iris[i % len(iris)] for i in range(arity)]
        extra = iris[arity:]
        if extra and mode == "generic":        # more prefixes than slots: carry the rest in a quoted triple
            while len(extra) < 2:
                extra.append(iris[0])
            terms[2] = ("triple", terms[2], extra[0], extra[1])
        return tuple(terms)
    if table == "datatype":
        dts = [f"http://ex.org/dt/{i}" for i in range(k)]
        seq = list(range(k))
        if rng.random() < .6:
            while len(seq) < arity:
                pos = rng.randint(1, len(seq))
                seq.insert(pos, rng.choice(seq[:pos]))
        terms = [("lit", f"v{i}", None, dts[seq[i % len(seq)]]) for i in range(arity)]
        if k > arity:
            terms[0] = ("triple", ("lit", "a", None, dts[0]), ("iri", "http://ex.org/p"), ("lit", "b", None, dts[k - 1]))
        return tuple(terms)
    # names: nested quoted triples with k distinct local names in one namespace
    names = [("iri", f"http://ex.org/n{i}") for i in range(k)]
    it = iter(names)

    def take():
        return next(it, names[-1])

    def quoted(depth):
        if depth == 0:
            return take()
        return ("triple", quoted(depth - 1), take(), quoted(depth - 1))
    depth = 1 if k <= 7 else 2 if k <= 15 else 3
    s = quoted(depth)
    terms = [s, take(), quoted(max(0, depth - 1))] + ([take()] if arity == 4 else [])
    # make sure all k names are used: fill a last nested object if some are left
    left = list(it)
    while left:
        a = left.pop()
        b = left.pop() if left else a
        terms[2] = ("triple", terms[2], a, b)
    return tuple(terms)


def make_case(rng):
    integ = "generic" if rng.random() < .8 else "rdflib"
    # rdflib: prefixes, and datatypes through generalized statements (literal subject / predicate + object)
    table = rng.choice(["prefix", "datatype", "name"]) if integ == "generic" else rng.choice(["prefix", "datatype"])
    phys = rng.choice([1, 2, 3])
    arity = 3 if phys == 1 else 4
    mode = "generic" if integ == "generic" else "rdf11"
    if table == "prefix":
        size = rng.randint(1, 3)
        k = size + rng.randint(1, 2) if integ == "generic" else min(size + rng.randint(1, 2), arity)
        if k <= size:
            size = k - 1
        preset = (rng.choice([8, 16, 100]), size, 8)
    elif table == "datatype":
        size = rng.randint(1, 3)
        k = size + rng.randint(1, 2)
        preset = (16, rng.choice([0, 4, 16]), size)
    else:
        size = rng.randint(8, 26)
        k = size + rng.randint(1, 3)
        preset = (size, rng.choice([0, 4]), 4)
    big = big_statement(rng, table, arity, mode, k)
    v = gen.Vocab(rng, mode, n_ns=1, n_local=4, n_dt=1)
    v.ns = ["http://ns0.example/"] if table == "prefix" else v.ns
    if table == "datatype":
        v.datatypes = ["http://ex.org/dt/0"]
    filler = gen.statements(rng, rng.randint(0, 10), arity, mode, vocab=v)
    if table != "datatype":
        filler = [tuple(("lit", t[1], None, None) if t[0] == "lit" and t[3] else t for t in s) for s in filler]
    position = rng.choice(["first", "mid", "last", "after-evictions"])
    if position == "first" or not filler:
        stmts = [big] + filler
        position = "first"
    elif position == "last":
        stmts = filler + [big]
    else:
        i = rng.randint(1, len(filler))
        stmts = filler[:i] + [big] + filler[i:]
    # real need of the oversized row under the split rule
    rows = [big[:3], big[3:]] if phys == 3 else [big]
    need = max(T.row_need(r, preset[1] > 0) for r in rows if r)
    need_t = {"prefix": need[0], "name": need[1], "datatype": need[2]}
    if table == "name" and preset[1] == 0:
        need_t["name"] = max(T.row_need(r, False)[1] for r in rows if r)
    cfg = {"integration": integ, "physical": phys, "entry": rng.choice(["stream_frames_gen", "stream_frames_sink"] if integ == "generic"
                                                                        else ["stream_frames_gen"]),
           "frame_size": rng.choice([1, 5, 250]), "preset": preset, "delimited": True, "logical": pj.FLAT_LOGICAL[phys],
           "generalized": True, "rdf_star": True, "ns": False, "stream_name": ""}
    def plain(t):
        return t[0] in ("iri", "bnode", "default") or (t[0] == "lit")
    if table == "prefix" and all(plain(t) for s_ in stmts for t in s_) and \
            all(s_[0][0] != "lit" and s_[1][0] == "iri" and (len(s_) < 4 or s_[3][0] != "lit") for s_ in stmts) and rng.random() < .5:
        # plain RDF 1.1 statements: the stream does not declare RDF-star / generalized statements
        cfg["generalized"] = cfg["rdf_star"] = False
    if integ == "generic" and phys != 3 and rng.random() < .2:
        cfg["entry"] = "low-level-encode"
    elif rng.random() < .25:
        cfg["entry"] = "catch-and-continue"
    overflow = need_t[table] - {"prefix": preset[1], "name": preset[0], "datatype": preset[2]}[table]
    return cfg, stmts, table, overflow, position


def low_level_bytes(cfg, stmts) -> bytes:
    """A custom writer built directly on the public encode_triple / encode_quad functions and a TermEncoder."""
    from pyjelly import jelly
    from pyjelly.integrations.generic.serialize import GenericSinkTermEncoder
    from pyjelly.options import LookupPreset, StreamParameters, StreamTypes
    from pyjelly.serialize.encode import encode_options, encode_quad, encode_triple

    n, p, d = cfg["preset"]
    preset = LookupPreset(max_names=n, max_prefixes=p, max_datatypes=d)
    enc = GenericSinkTermEncoder(lookup_preset=preset)
    phys = cfg["physical"]
    rows = [encode_options(preset, StreamTypes(physical_type=phys, logical_type=pj.FLAT_LOGICAL[phys]),
                           StreamParameters(generalized_statements=True, rdf_star=True))]
    repeated = [None] * 4
    for st in stmts:
        native = T.stmt_to_generic(st)
        rows.extend((encode_triple if phys == 1 else encode_quad)(native, enc, repeated))
    frame = jelly.RdfStreamFrame(rows=rows).SerializeToString(deterministic=True)
    return wire.enc_varint(len(frame)) + frame


def judge_catch_and_continue(cfg, stmts):
    """A writer that drives stream.triple / quad / graph itself, skips a statement the stream refuses and carries on:
    what it ends up with must decode to exactly the statements that were accepted (or the stream refuses all further use)."""
    from . import c20
    run = c20.drive(cfg["integration"], cfg, stmts, -1, None)
    accepted = [T.norm_stmt(x) for x in run["accepted"]]
    refusals = sum(1 for o in run["outcomes"] if o[0] == "raised")
    try:
        data, res = c20.decode_frames(run["frames"])
    except wire.WireError as e:
        return {"clause": "output-malformed", "summary": str(e)}, "wrote"
    if res.violation is not None:
        return {"clause": "output-invalid", "bytes": data.hex(),
                "summary": f"after {refusals} refused statement(s) the caller carried on; the written stream is invalid: {res.violation}"}, "wrote"
    got = [T.norm_stmt(s) for s in res.statements]
    if got != accepted:
        i = next((k for k, (a, b) in enumerate(zip(got, accepted)) if a != b), min(len(got), len(accepted)))
        return {"clause": "decodes-to-other-terms", "bytes": data.hex(),
                "summary": f"after {refusals} refused statement(s) the caller carried on with the same stream; accepted statement {i} "
                           f"decodes to {got[i] if i < len(got) else None} instead of {accepted[i] if i < len(accepted) else None}"}, "wrote"
    return None, ("refused-then-continued" if refusals and len(accepted) else "refused" if refusals else "wrote-correctly")


def judge(cfg, stmts):
    if cfg["entry"] == "catch-and-continue":
        return judge_catch_and_continue(cfg, stmts)
    try:
        data = low_level_bytes(cfg, stmts) if cfg["entry"] == "low-level-encode" else pj.serialize(cfg, stmts)
    except Exception as e:  # noqa: BLE001 - refusing is fine
        return None, f"raised:{type(e).__name__}"
    want = [T.norm_stmt(s) for s in stmts]
    ordered = cfg["integration"] == "generic"
    try:
        res = refdec.decode(wire.dec_stream(data, True))
    except wire.WireError as e:
        return {"clause": "output-malformed", "summary": str(e)}, "wrote"
    if res.violation is not None:
        return {"clause": "output-invalid", "bytes": data.hex(), "summary": f"written stream is invalid: {res.violation}"}, "wrote"
    got = [T.norm_stmt(s) for s in res.statements]
    if (got != want) if ordered else (set(got) != set(want)):
        i = next((k for k, (a, b) in enumerate(zip(got, want)) if a != b), min(len(got), len(want)))
        return {"clause": "decodes-to-other-terms", "bytes": data.hex(),
                "summary": f"well-formed stream, but statement {i} decodes to {got[i] if i < len(got) else None} instead of "
                           f"{want[i] if i < len(want) else None}"}, "wrote"
    try:
        mine = [T.norm_stmt(e[1]) for e in pj.parse("generic", "flat", data) if e[0] == "stmt"]
    except Exception as e:  # noqa: BLE001
        return {"clause": "pyjelly-cannot-read-own-output", "bytes": data.hex(), "summary": f"{type(e).__name__}: {e}"}, "wrote"
    if (mine != want) if ordered else (set(mine) != set(want)):
        return {"clause": "decodes-to-other-terms", "bytes": data.hex(), "summary": "pyjelly's own parser decodes to other terms"}, "wrote"
    return None, "wrote-correctly"


def optimized_interpreter_cases(ctx):
    """The same oracle in an interpreter started with -O (assert statements compiled away): refusing an oversized
    statement must not hinge on an assert."""
    import json
    import subprocess
    import sys
    e = dict(os.environ, PYTHONPATH=env.VERIF_DIR, PYTHONDONTWRITEBYTECODE="1", RV_NO_COVERAGE="1")
    try:
        r = subprocess.run([sys.executable, "-O", "-m", "rv.props.c18", "child", str(ctx.seed), "400"], cwd=env.VERIF_DIR, env=e,
                           capture_output=True, text=True, timeout=300)
        out = json.loads(r.stdout.strip().splitlines()[-1])
    except Exception as ex:  # noqa: BLE001
        ctx.inconc(f"python -O child failed: {type(ex).__name__}: {ex}")
        return
    ctx.observe("cases-under-python-O", out["cases"])
    for k, v in out["outcomes"].items():
        ctx.observe(f"python-O:outcome:{k}", v)
    for w in out["violations"]:
        w["interpreter"] = "python -O"
        w["summary"] = "under python -O: " + w["summary"]
        ctx.violation(w)
    ctx.case(("python-O", ctx.seed), out["cases"] > 0, sample={"kind": "python -O child", "cases": out["cases"], "outcomes": out["outcomes"]})


def child_main(seed: int, n: int):
    import json
    from collections import Counter
    outcomes = Counter()
    violations = []
    cases = 0
    for i in range(n):
        rng = gen.rng_for("C18", seed, "python-O", i)
        cfg, stmts, table, overflow, position = make_case(rng)
        if overflow < 1:
            continue
        w, outcome = judge(cfg, stmts)
        cases += 1
        outcomes[outcome] += 1
        if w is not None and len(violations) < 5:
            w.update({"cfg": cfg, "stmts": T.to_json(stmts), "table": table, "overflow": overflow, "position": position})
            w.pop("bytes", None)
            violations.append(w)
    print(json.dumps({"cases": cases, "outcomes": dict(outcomes), "violations": violations, "asserts_enabled": __debug__}))


def run_shard(ctx):
    if ctx.shard == 0:
        optimized_interpreter_cases(ctx)
    i = 0
    while not ctx.out_of_time():
        rng = ctx.rng(i)
        i += 1
        cfg, stmts, table, overflow, position = make_case(rng)
        if overflow < 1:
            ctx.observe("generator-miss (no real overflow)")
            continue
        w, outcome = judge(cfg, stmts)
        ctx.observe("cases")
        ctx.observe(f"table:{table}")
        ctx.observe(f"outcome:{outcome}")
        ctx.observe(f"position:{position}")
        if w is not None:
            w.update({"cfg": cfg, "stmts": T.to_json(stmts), "table": table, "overflow": overflow, "position": position})
            ctx.violation(w)
        ctx.case((table, overflow, position, sorted(cfg.items()), stmts), True,
                 sample={"table": table, "overflow": overflow, "position": position, "preset": list(cfg["preset"]),
                         "integration": cfg["integration"], "physical": cfg["physical"], "outcome": outcome})


def replay(w: dict):
    cfg = w["cfg"]
    cfg["preset"] = tuple(cfg["preset"])
    return judge(cfg, list(T.from_json(w["stmts"])))[0]


if __name__ == "__main__":
    import sys as _sys
    if len(_sys.argv) >= 4 and _sys.argv[1] == "child":
        child_main(int(_sys.argv[2]), int(_sys.argv[3]))


def classify(w: dict):
    if w.get("clause") in ("decodes-to-other-terms", "output-invalid", "pyjelly-cannot-read-own-output") and w.get("overflow", 0) >= 1:
        return f"C18/row-overflows-table/{w['table']}"
    return None
