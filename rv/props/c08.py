"""C08 - delimited vs non-delimited framing is always detected correctly."""
from __future__ import annotations

import io

from .. import gen, pj, refdec, wire
from .. import terms as T

from pyjelly.parse.ioutils import delimited_jelly_hint, get_options_and_frames  # noqa: E402

ID = "C08"
LEVEL = "exploration"
RULE = ("(i) the finite header space is enumerated: delimited streams with an empty first frame followed by every two bytes; "
        "with first-frame length 2..127 followed by the row tag and every feasible first byte of the row length; every "
        "two-byte length varint; every three-byte length varint (all 2^21 in thorough, sampled in quick); non-delimited "
        "streams with every options-row length 2..127 and every two-byte row-length varint - ground truth is the "
        "construction mode. (ii) real streams: hand-encoded minimal streams whose first frame / options row has length "
        "exactly 10 (and 9, 11, 127, 128, 300), and pyjelly serializer output in both modes with the stream name padded so "
        "that the options row length sweeps 8..140 (each also parsed from a BytesIO positioned after a foreign prefix that would "
        "classify the other way), and with a literal sized so that the frame length sweeps 118..136 and "
        "16370..16530 (1/2/3-byte length varints); every constructible first-frame length 12..200 through generic and rdflib "
        "parse_jelly_flat and the rdflib plugin (Graph.parse(data=) / Graph.parse(file name)); the crafted streams and every fourth pyjelly pair are also supplied through "
        "24 awkward file objects (raw / buffered, seekable and not, whose first read or look-ahead shows 1-2 bytes; a buffered "
        "reader with 1-2 bytes left in its buffer; gzip over a dribbling file) - both modes must be detected by get_options_and_frames and parse to "
        "the same statements. rdflib Graph.serialize asked for each mode through options= / stream= / an explicit flow object, and with "
        "the options object arriving as copy.copy / deepcopy / pickle round trip / dataclasses.replace of the caller's: the bytes "
        "must be classified as the mode asked for; and a default Graph.serialize(format='jelly') (no options) after the same process wrote a "
        "non-delimited file through an adjusted guess_options() / default options object is still the delimited stream it is on its own. Non-trivial: headers containing 0x0A in byte 1 or 2; distinct by header bytes / stream bytes.")
ASSUMPTIONS = [
    "domain as stated by the property: the first frame is empty or starts with a row (no metadata-only first frame)",
    "non-delimited streams start with their options row (a valid stream)",
]
ANCHORS = ["pyjelly/parse/ioutils.py", "pyjelly/serialize/ioutils.py", "pyjelly/integrations/rdflib/serialize.py"]
MARKERS = {"hint": ("pyjelly/parse/ioutils.py", r"magic = 0x0A")}
REQUIRED_OBSERVED = ["headers-checked", "paired-streams-parsed", "boundary-frame-lengths"]
MIN_NONTRIVIAL = 100
MANIFEST = {
    "text": "Enumerates every 3-byte header a valid stream can start with in either mode (ground truth = how it was "
            "constructed) against the real delimited_jelly_hint, and parses real paired delimited/non-delimited outputs "
            "whose first-frame and options-row lengths are forced through the 0x0A coincidences.",
    "note": "Exhaustive over the header space in the thorough tier (quick samples the three-byte varints). Real-stream part "
            "covers the lengths listed in the rule.",
    "technique": "runtime monitoring: exhaustive header enumeration against the real detector + paired-output differential parse",
}


def plan(tier: str) -> dict:
    return {"shards": 4, "budget_s": 40} if tier == "quick" else {"shards": 8, "budget_s": 300}


def headers(tier: str, shard: int, nshards: int, rng):
    """Yield (mode_is_delimited, header bytes, description)."""
    k = 0

    def mine():
        nonlocal k
        k += 1
        return k % nshards == shard

    # delimited, empty first frame: 00 then anything (the next frame's length varint / content)
    for x in range(256):
        for y in range(256):
            if mine():
                yield True, bytes([0, x, y]), "delimited/empty-first-frame"
    # delimited, one-byte length L, frame starts with a row: 0A then first byte of row length
    for L in range(2, 128):
        for r in range(0, min(L - 2, 127) + 1):
            if mine():
                yield True, bytes([L, 0x0A, r]), "delimited/one-byte-length"
    # delimited, two-byte length varint, then row tag
    for L in range(128, 16384):
        if mine():
            yield True, wire.enc_varint(L) + b"\x0a", "delimited/two-byte-length"
    # delimited, three-byte length varint
    if tier == "thorough":
        rng3 = range(16384, 2 ** 21)
    else:
        rng3 = sorted({16384, 2 ** 21 - 1, *[rng.randrange(16384, 2 ** 21) for _ in range(20000)],
                       *[v for v in range(16384, 2 ** 21) if wire.enc_varint(v)[1] == 0x8A or wire.enc_varint(v)[2] == 0x0A][:20000]})
    for L in rng3:
        if mine():
            yield True, wire.enc_varint(L), "delimited/three-byte-length"
    # non-delimited: rows tag, options-row length, options tag
    for n in range(2, 128):
        if mine():
            yield False, bytes([0x0A, n, 0x0A]), "non-delimited/one-byte-row-length"
    for n in range(128, 16384):
        if mine():
            yield False, b"\x0a" + wire.enc_varint(n), "non-delimited/two-byte-row-length"


def minimal_stream(opt_len_target: int | None, frame_len_target: int | None, rng):
    """Hand-encoded TRIPLES stream: options (+ padding through stream_name) then one triple in a second row."""
    base = {"stream_name": "", "physical_type": 1, "generalized_statements": False, "rdf_star": False,
            "max_name_table_size": 8, "max_prefix_table_size": 0, "max_datatype_table_size": 0,
            "logical_type": 0, "version": 1}
    for pad in [-1] + list(range(0, 400)):
        o = dict(base)
        if pad == -1:
            o["logical_type"] = 1          # a two-byte field: reaches lengths the name padding cannot
        elif pad:
            o["stream_name"] = "x" * (pad - 2) if pad >= 2 else None
            if o["stream_name"] is None:
                continue
        row = wire.enc_row(("options", o))
        if opt_len_target is not None and len(row) == opt_len_target:
            return o
        if frame_len_target is not None and len(wire.f_bytes(1, row)) == frame_len_target:
            return o
    return None


def real_stream_cases(rng):
    """Yield (description, frames(list of wire frames))."""
    triple_rows = [("name", {"id": 0, "value": "urn:a"}),
                   ("triple", {"s": ("iri", 0, 0), "p": ("iri", 0, 1), "o": ("bnode", "b")})]
    for target in (9, 10, 11, 127, 128, 129, 300):
        o = minimal_stream(target, None, rng)
        if o is not None:
            yield f"options-row-length-{target}", o, [("options", o)], triple_rows
        o = minimal_stream(None, target, rng)
        if o is not None:
            yield f"first-frame-length-{target}", o, [("options", o)], triple_rows


def parse_with_twins_options(data: bytes, twin: bytes, want_events):
    """parse_jelly_flat(inp, options=<options read from the twin written in the OTHER mode>) without frames=: the framing
    still has to come from the stream's own first bytes.  -> problem text or None"""
    from pyjelly.integrations.generic import parse as gparse
    try:
        opts, _fr = get_options_and_frames(io.BytesIO(twin))
        evs = T.norm_events([T.event_from_generic(x) for x in gparse.parse_jelly_flat(io.BytesIO(data), options=opts)])
    except Exception as ex:  # noqa: BLE001
        return f"raised {type(ex).__name__}: {str(ex)[:100]}"
    return None if evs == want_events else "parses to different statements"


def first_frame_length_sweep(ctx):
    """Every constructible first-frame length 16..200 (= every value of the stream's first byte a small real stream can
    have), both framings, through every way of handing the bytes to a parser: generic and rdflib parse_jelly_flat, and
    the rdflib plugin (Graph.parse(data=...), Graph.parse(<file name>), format='jelly')."""
    import os
    import tempfile

    import rdflib
    triple_rows = [("name", {"id": 0, "value": "urn:a"}),
                   ("triple", {"s": ("iri", 0, 0), "p": ("iri", 0, 1), "o": ("bnode", "b")})]
    want = [("stmt", (("iri", "urn:a"), ("iri", "urn:a"), ("bnode", "b")))]
    fd, path = tempfile.mkstemp(prefix="rv-c08-", suffix=".jelly")
    os.close(fd)
    try:
        for L in range(12, 201):
            o = minimal_stream(None, L, None)
            if o is None:
                continue
            first = [("options", o)]
            for mode, data in (("delimited", wire.enc_stream([{"rows": first}, {"rows": triple_rows}], True)),
                               ("non-delimited", wire.enc_stream([{"rows": first + triple_rows}], False))):
                if mode == "delimited" and data[0] != L:
                    continue
                outcomes = {}
                for reader in ("generic:flat", "rdflib:flat", "rdflib:Graph.parse(data)", "rdflib:Graph.parse(file)"):
                    try:
                        if reader.endswith(":flat"):
                            got = T.norm_events(pj.parse(reader.split(":")[0], "flat", data))
                        else:
                            g = rdflib.Graph(bind_namespaces="none")
                            if reader.endswith("(data)"):
                                g.parse(data=data, format="jelly")
                            else:
                                with open(path, "wb") as f:
                                    f.write(data)
                                g.parse(path, format="jelly")
                            got = T.norm_events([("stmt", st) for st in T.rdflib_store_statements(g)])
                        outcomes[reader] = "ok" if got == T.norm_events(want) else f"parsed to {got}"
                    except Exception as ex:  # noqa: BLE001
                        outcomes[reader] = f"raised {type(ex).__name__}: {str(ex)[:80]}"
                ctx.observe("first-frame-length-sweep-parses", len(outcomes))
                bad = {r: v for r, v in outcomes.items() if v != "ok"}
                if bad:
                    ctx.violation({"clause": "misclassified-or-rejected", "mode": mode, "header": data[:3].hex(), "first_frame_length": L,
                                   "bytes": data.hex(), "kind": "length-sweep",
                                   "summary": f"{mode} stream whose first frame is {L} bytes long (header {data[:3].hex()}): {bad}"})
                ctx.case(("sweep", L, mode), True, sample={"kind": "first-frame-length-sweep", "length": L, "mode": mode})
    finally:
        os.unlink(path)


def parse_at_offset(data: bytes, want_delim: bool):
    """Parse the stream from a BytesIO whose cursor stands after a foreign prefix that would classify the OTHER way.
    -> (detected delimited flag, events)"""
    prefix = b"\x0a\x00\x00XY" if want_delim else b"\x00\x00\x00XY"
    f = io.BytesIO(prefix + data)
    f.seek(len(prefix))
    opts, _frames = get_options_and_frames(f)
    f = io.BytesIO(prefix + data)
    f.seek(len(prefix))
    return opts.params.delimited, T.norm_events(pj.parse("generic", "flat", f))


def probe_sources(data: bytes, want_delim: bool, want_events):
    """The same bytes through file objects whose first look at the stream is awkward (short first reads, look-ahead
    that shows < 3 bytes, a buffer with 1-2 bytes left).  -> (name, detected, problem) of the first one that differs."""
    import shutil
    import tempfile

    from .. import sources
    tmpdir = tempfile.mkdtemp(prefix="rv-c08-")
    try:
        return _probe(sources.header_probe_sources(data) + sources.compressed_file_sources(data, tmpdir), want_delim, want_events)
    finally:
        shutil.rmtree(tmpdir, ignore_errors=True)


def _probe(factories, want_delim: bool, want_events):
    for name, make in factories:
        f = make()
        try:
            opts, _frames = get_options_and_frames(f)
            det = opts.params.delimited
        except Exception as ex:  # noqa: BLE001
            return name, None, f"get_options_and_frames raised {type(ex).__name__}: {ex}"
        if det != want_delim:
            return name, det, f"classified delimited={det}"
        try:
            evs = T.norm_events(pj.parse("generic", "flat", make()))
        except Exception as ex:  # noqa: BLE001
            return name, det, f"parse raised {type(ex).__name__}: {ex}"
        if evs != want_events:
            return name, det, "parses to different statements"
    return None


N_PROBE_SOURCES = 27


def judge_pair(desc, first_rows, rest_rows):
    """Same content, both framings -> both detected and equal parse."""
    want = None
    out = []
    # delimited: first frame holds only first_rows (so that its length is the crafted one)
    d_bytes = wire.enc_stream([{"rows": first_rows}, {"rows": rest_rows}], True)
    n_bytes = wire.enc_stream([{"rows": first_rows + rest_rows}], False)
    e_bytes = wire.enc_stream([{"rows": []}, {"rows": first_rows}, {"rows": rest_rows}], True)
    for mode, data in (("delimited", d_bytes), ("non-delimited", n_bytes), ("delimited-empty-first", e_bytes)):
        want_delim = mode != "non-delimited"
        if delimited_jelly_hint(data[:3]) != want_delim:
            return {"clause": "misclassified", "mode": mode, "header": data[:3].hex(),
                    "summary": f"{desc}: {mode} stream with header {data[:3].hex()} classified as "
                               f"{'delimited' if not want_delim else 'non-delimited'}"}
        try:
            opts, _frames = get_options_and_frames(io.BytesIO(data))
            if opts.params.delimited != want_delim:
                return {"clause": "misclassified", "mode": mode, "header": data[:3].hex(),
                        "summary": f"{desc}: get_options_and_frames reports delimited={opts.params.delimited}"}
            evs = T.norm_events(pj.parse("generic", "flat", data))
            d2, evs2 = parse_at_offset(data, want_delim)
        except Exception as ex:  # noqa: BLE001
            return {"clause": "parse-raised", "mode": mode, "header": data[:3].hex(), "bytes": data.hex(),
                    "summary": f"{desc}: {mode} parse raised {type(ex).__name__}: {ex}"}
        if d2 != want_delim or evs2 != evs:
            return {"clause": "misclassified", "mode": mode, "header": data[:3].hex(),
                    "summary": f"{desc}: {mode} stream handed over at a non-zero BytesIO position (after a foreign prefix) is "
                               f"classified delimited={d2} / parses differently"}
        bad = probe_sources(data, want_delim, evs)
        if bad:
            return {"clause": "misclassified-through-source", "mode": mode, "header": data[:3].hex(), "source": bad[0],
                    "summary": f"{desc}: {mode} stream supplied as {bad[0]}: {bad[2]}"}
        out.append(evs)
    if not (out[0] == out[1] == out[2]):
        return {"clause": "paired-parse-differs", "summary": f"{desc}: the framings parse to different results"}
    return None


def pyjelly_pairs(ctx, rng):
    """pyjelly output in both modes, stream name padded so the options row sweeps the critical lengths."""
    stmts = gen.statements(rng, rng.randint(1, 6), 3, "generic")
    for pad in list(range(0, 20)) + [100, 110, 115, 120, 125, 130, 140, 300]:
        cfg = {"integration": "generic", "physical": 1, "entry": "stream_frames_gen", "frame_size": 250,
               "preset": (rng.choice([8, 16, 128]), rng.choice([0, 8]), rng.choice([0, 8])), "logical": 1,
               "generalized": True, "rdf_star": True, "stream_name": "é" * (pad // 2) + "x" * (pad % 2),
               "params_build": ["direct", "positional", "replace"][pad % 3]}
        need_dt = any(t[0] == "lit" and t[3] for s in stmts for top in s for t in T.iter_terms(top))
        if need_dt:
            cfg["preset"] = (cfg["preset"][0], cfg["preset"][1], 8)
        results = []
        for delimited in (True, False):
            cfg["delimited"] = delimited
            try:
                data = pj.serialize(cfg, stmts)
            except Exception as ex:  # noqa: BLE001
                ctx.observe(f"pyjelly-serialize-raised:{type(ex).__name__}")
                results = None
                break
            hint = delimited_jelly_hint(data[:3])
            if hint == delimited and not all(delimited_jelly_hint(data[:k]) == delimited for k in (4, 16, len(data)) if len(data) >= k):
                hint = not delimited             # the hint given more than three bytes of the stream says something else
            try:
                first = wire.dec_stream(data, delimited)[0]
                optlen = first["row_offsets"][0][1] - first["row_offsets"][0][0]
                ctx.observe(f"pyjelly-options-row-field-length:{optlen if optlen < 20 else ('10' if optlen == 10 else '>=20')}")
            except Exception:  # noqa: BLE001 - statistics only; output that cannot be read is judged by the parse below
                ctx.observe("pyjelly-output-unreadable-by-the-independent-codec")
            if hint != delimited:
                ctx.violation({"clause": "misclassified", "mode": "delimited" if delimited else "non-delimited",
                               "header": data[:3].hex(), "cfg": cfg, "stmts": T.to_json(stmts),
                               "summary": f"pyjelly {'delimited' if delimited else 'non-delimited'} output with header "
                                          f"{data[:3].hex()} misclassified"})
            try:
                results.append(T.norm_events(pj.parse("generic", "flat", data)))
                if pad % 4 == 0:
                    bad = probe_sources(data, delimited, results[-1])
                    ctx.observe("streams-probed-through-awkward-sources")
                    if bad:
                        ctx.violation({"clause": "misclassified-through-source", "mode": "delimited" if delimited else "non-delimited",
                                       "header": data[:3].hex(), "cfg": dict(cfg), "stmts": T.to_json(stmts), "source": bad[0],
                                       "summary": f"pyjelly {'delimited' if delimited else 'non-delimited'} output supplied as {bad[0]}: {bad[2]}"})
                d2, evs2 = parse_at_offset(data, delimited)
                if d2 != delimited or evs2 != results[-1]:
                    ctx.violation({"clause": "misclassified", "mode": "delimited" if delimited else "non-delimited",
                                   "header": data[:3].hex(), "cfg": cfg, "stmts": T.to_json(stmts),
                                   "summary": "pyjelly output handed over at a non-zero BytesIO position is classified "
                                              f"delimited={d2} / parses differently"})
            except Exception as ex:  # noqa: BLE001
                ctx.violation({"clause": "parse-raised", "cfg": cfg, "stmts": T.to_json(stmts), "header": data[:3].hex(),
                               "summary": f"pyjelly output (delimited={delimited}) does not parse: {type(ex).__name__}: {ex}"})
                results.append(None)
            ctx.case(("pj", data[:3].hex(), delimited, pad, len(stmts)), 0x0A in data[1:3],
                     sample={"kind": "pyjelly-output", "delimited": delimited, "header": data[:3].hex(), "pad": pad})
        if results and results[0] is not None and results[1] is not None and pad % 4 == 0:
            twins = {}
            for delimited in (True, False):
                cfg["delimited"] = delimited
                twins[delimited] = pj.serialize(cfg, stmts)
            for delimited in (True, False):
                bad = parse_with_twins_options(twins[delimited], twins[not delimited], results[0])
                ctx.observe("parsed-with-options-object-of-the-twin")
                if bad:
                    ctx.violation({"clause": "framing-taken-from-passed-options", "mode": "delimited" if delimited else "non-delimited",
                                   "header": twins[delimited][:3].hex(), "cfg": dict(cfg), "stmts": T.to_json(stmts),
                                   "summary": f"pyjelly {'delimited' if delimited else 'non-delimited'} output parsed with "
                                              f"parse_jelly_flat(inp, options=<options of its twin in the other mode>): {bad}"})
        if results and results[0] is not None and results[1] is not None:
            ctx.observe("paired-streams-parsed")
            if results[0] != results[1]:
                ctx.violation({"clause": "paired-parse-differs", "cfg": cfg, "stmts": T.to_json(stmts),
                               "summary": "pyjelly delimited and non-delimited outputs parse differently"})


def boundary_frames(ctx, rng):
    """pyjelly output (both modes) whose only frame is 120..135 and 16370..16530 bytes long (1/2/3-byte length varints)."""
    seen = set()
    for target_lo, target_hi in ((118, 136), (16370, 16530)):
        k = max(0, target_lo - 80)
        while True:
            stmts = [(("iri", "http://e/s"), ("iri", "http://e/p"), ("lit", "x" * k, None, None))]
            cfg = {"integration": "generic", "physical": 1, "entry": "stream_frames_gen", "frame_size": 250,
                   "preset": (8, 4, 0), "logical": 1, "generalized": True, "rdf_star": True, "stream_name": ""}
            out = {}
            L = None
            for delimited in (True, False):
                cfg["delimited"] = delimited
                data = pj.serialize(cfg, stmts)
                if not delimited:
                    L = len(data)
                try:
                    hint_ok = delimited_jelly_hint(data[:3]) == delimited
                    out[delimited] = T.norm_events(pj.parse("generic", "flat", data))
                except Exception as ex:  # noqa: BLE001
                    out[delimited] = f"raised {type(ex).__name__}: {str(ex)[:80]}"
                    hint_ok = True
                if not hint_ok:
                    out[delimited] = "misclassified"
            if L > target_hi:
                break
            k += 1
            if L < target_lo or L in seen:
                continue
            seen.add(L)
            ctx.observe("paired-streams-parsed")
            ctx.observe("boundary-frame-lengths")
            want = T.norm_events([("stmt", s) for s in stmts])
            if out[True] != want or out[False] != want:
                ctx.violation({"clause": "paired-parse-differs", "frame_length": L, "cfg": dict(cfg), "stmts": T.to_json(stmts),
                               "summary": f"single frame of {L} bytes: delimited -> "
                                          f"{out[True] if isinstance(out[True], str) else 'ok'}, non-delimited -> "
                                          f"{out[False] if isinstance(out[False], str) else 'ok'}"})
            ctx.case(("boundary", L), True, sample={"kind": "boundary-frame", "frame_length": L})


def huge_frames(ctx):
    """pyjelly output (both modes) whose only frame needs a FOUR-byte length prefix (2^21 - 300 .. 3 * 2^20 bytes)."""
    for k in ((1 << 21) - 300, (1 << 21) - 60, (1 << 21) + 5, 3 << 20):
        stmts = [(("iri", "http://e/s"), ("iri", "http://e/p"), ("lit", "y" * k, None, None))]
        cfg = {"integration": "generic", "physical": 1, "entry": "stream_frames_gen", "frame_size": 250,
               "preset": (8, 4, 0), "logical": 1, "generalized": True, "rdf_star": True, "stream_name": ""}
        want = T.norm_events([("stmt", s) for s in stmts])
        out = {}
        for delimited in (True, False):
            cfg["delimited"] = delimited
            data = pj.serialize(cfg, stmts)
            try:
                if delimited_jelly_hint(data[:3]) != delimited:
                    out[delimited] = "misclassified"
                else:
                    out[delimited] = "ok" if T.norm_events(pj.parse("generic", "flat", data)) == want else "parsed to something else"
            except Exception as ex:  # noqa: BLE001
                out[delimited] = f"raised {type(ex).__name__}: {str(ex)[:80]}"
            L = len(data)
        ctx.observe("paired-streams-parsed")
        ctx.observe("frames-of-about-2MiB-and-more")
        if out[True] != "ok" or out[False] != "ok":
            ctx.violation({"clause": "paired-parse-differs", "frame_length": L, "kind": "huge-frame",
                           "summary": f"single frame of about {L} bytes: delimited -> {out[True]}, non-delimited -> {out[False]}"})
        ctx.case(("huge", k), True, sample={"kind": "huge-frame", "literal_bytes": k})


def _rebuild_options(o):
    """dataclasses.replace on the nested parameter objects (how a caller derives one configuration from another)."""
    import dataclasses
    return dataclasses.replace(o, params=dataclasses.replace(o.params), lookup_preset=dataclasses.replace(o.lookup_preset))


def rdflib_writer_modes(ctx, rng):
    """Graph.serialize(format='jelly') asked for each mode through options=, stream=+options= and stream= alone:
    what lands in the file must be classified as the mode that was asked for, and both must parse alike."""
    stmts = gen.statements(rng, rng.randint(1, 5), 3, "rdf11")
    want = sorted(T.norm_events([("stmt", s) for s in {T.norm_stmt(x): x for x in stmts}.values()]), key=repr)
    from pyjelly.serialize import flows as F
    import copy
    import pickle
    transports = {"copy": copy.copy, "deepcopy": copy.deepcopy, "pickle": lambda o: pickle.loads(pickle.dumps(o)),
                  "replace-params": lambda o: _rebuild_options(o)}
    for entry, flow_kind in [("graph_serialize", None), ("graph_serialize_options", None), ("graph_serialize_stream_only", None),
                             ("graph_serialize", "manual"), ("graph_serialize_options", "manual"),
                             ("graph_serialize", "bounded"), ("graph_serialize_options", "bounded"),
                             # the options object reaches the writer as a copy (configuration templates, worker processes)
                             ("graph_serialize", "via:copy"), ("graph_serialize_options", "via:deepcopy"),
                             ("graph_serialize_options", "via:pickle"), ("graph_serialize", "via:pickle"),
                             ("graph_serialize_options", "via:replace-params")]:
        res = {}
        for delimited in (True, False):
            cfg = {"integration": "rdflib", "physical": 1, "entry": entry, "frame_size": 250, "preset": (16, 8, 8), "logical": 1,
                   "generalized": False, "rdf_star": False, "delimited": delimited, "stream_name": "",
                   "params_build": "positional" if len(stmts) % 2 else "direct"}
            try:
                if flow_kind and flow_kind.startswith("via:"):
                    pj.OPTIONS_OVERRIDE = transports[flow_kind[4:]](pj.make_options(cfg))
                    cfg["options_transport"] = flow_kind[4:]
                    ctx.observe(f"options-transport:{flow_kind[4:]}")
                elif flow_kind:
                    # the options also carry an explicit flow object - whose kind may 'disagree' with the requested mode
                    flow = F.ManualFrameFlow(logical_type=1) if flow_kind == "manual" else F.FlatTriplesFrameFlow(frame_size=3)
                    pj.OPTIONS_OVERRIDE = pj.make_options(cfg, flow=flow)
                    cfg["explicit_flow"] = flow_kind
                try:
                    data = pj.serialize(cfg, stmts)
                finally:
                    pj.OPTIONS_OVERRIDE = None
            except Exception as ex:  # noqa: BLE001
                ctx.observe(f"rdflib-serialize-raised:{type(ex).__name__}")
                continue
            ctx.observe("rdflib-writer-mode-checks")
            if delimited_jelly_hint(data[:3]) != delimited:
                ctx.violation({"clause": "misclassified", "mode": "delimited" if delimited else "non-delimited", "header": data[:3].hex(),
                               "cfg": cfg, "stmts": T.to_json(stmts),
                               "summary": f"rdflib {entry} asked for {'delimited' if delimited else 'non-delimited'} output; the bytes "
                                          f"(header {data[:3].hex()}) are classified as the other mode"})
            try:
                res[delimited] = sorted(T.norm_events(pj.parse("generic", "flat", data)), key=repr)
                # ... and through every other entry point: the framing is detected the same way whoever reads the file
                base_set = {repr(e) for e in res[delimited] if e[0] == "stmt"}
                for integ2, entry2 in (("rdflib", "flat"), ("rdflib", "grouped"), ("generic", "grouped"), ("rdflib", "to_graph"), ("generic", "to_graph")):
                    got2 = {repr(e) for e in T.norm_events(pj.parse(integ2, entry2, data)) if e[0] == "stmt"}
                    ctx.observe(f"rdflib-writer-mode-read-through:{integ2}:{entry2}")
                    if got2 != base_set:
                        ctx.violation({"clause": "paired-parse-differs", "cfg": cfg, "stmts": T.to_json(stmts), "header": data[:3].hex(),
                                       "summary": f"rdflib {entry} output (delimited={delimited}) read through {integ2}:{entry2} gives other statements"})
            except Exception as ex:  # noqa: BLE001
                ctx.violation({"clause": "parse-raised", "cfg": cfg, "stmts": T.to_json(stmts), "header": data[:3].hex(),
                               "summary": f"rdflib {entry} output (delimited={delimited}) does not parse: {type(ex).__name__}"})
            ctx.case(("rdflib-mode", entry, flow_kind, delimited, data[:3].hex(), len(stmts)), True,
                     sample={"kind": "rdflib writer mode", "entry": entry, "delimited": delimited, "header": data[:3].hex()})
        # both modes must parse alike; against the input only as a SET (an rdflib store keeps "x" and "x"^^xsd:string
        # apart, the neutral model does not)
        if len(res) == 2 and not (res[True] == res[False] and {repr(e) for e in res[True]} == {repr(e) for e in want}):
            ctx.violation({"clause": "paired-parse-differs", "summary": f"rdflib {entry}: the two modes do not parse to the same statements"})


def default_write_after_history(ctx, rng):
    """Graph.serialize(format='jelly') with NO options (the documented default: a delimited stream) after the same process
    wrote other files in other ways - in particular a non-delimited one through an options object obtained from
    guess_options() / a default SerializerOptions() and then adjusted by the caller.  The default write must stay what it is
    on its own: delimited, classified as such, and parsing to the graph."""
    import dataclasses
    import rdflib
    from pyjelly.integrations.rdflib import serialize as rser
    from pyjelly.serialize.streams import SerializerOptions

    stmts = gen.statements(rng, rng.randint(1, 4), 3, "rdf11")
    g = pj.rdflib_store_of(stmts, dataset=False)
    history = rng.choice(["guess_options-adjusted", "default-options-adjusted", "non-delimited-first"])
    try:
        if history == "guess_options-adjusted":
            o = rser.guess_options(g)
            o.params = dataclasses.replace(o.params, delimited=False)
        elif history == "default-options-adjusted":
            o = SerializerOptions(logical_type=1)
            o.params = dataclasses.replace(o.params, delimited=False, generalized_statements=False, rdf_star=False)
        else:
            o = pj.make_options({"physical": 1, "logical": 1, "delimited": False, "generalized": False, "rdf_star": False})
        g.serialize(io.BytesIO(), format="jelly", options=o)
    except Exception as ex:  # noqa: BLE001
        ctx.observe(f"default-write-history-raised:{type(ex).__name__}")
    out = io.BytesIO()
    g.serialize(out, format="jelly")
    data = out.getvalue()
    ctx.observe("default-writes-after-a-history")
    ctx.observe(f"default-write-history:{history}")
    problem = None
    if not delimited_jelly_hint(data[:3]):
        problem = f"is classified as non-delimited (header {data[:3].hex()})"
    else:
        try:
            wire.dec_stream(data, True)
            got = {repr(e) for e in T.norm_events(pj.parse("generic", "flat", data))}
            if got != {repr(e) for e in T.norm_events([("stmt", s) for s in stmts])}:
                problem = "parses to other statements"
        except Exception as ex:  # noqa: BLE001
            problem = f"does not parse as the delimited stream it should be: {type(ex).__name__}"
    if problem:
        ctx.violation({"clause": "misclassified", "mode": "delimited", "header": data[:3].hex(), "kind": "default-write-after-history",
                       "history": history, "stmts": T.to_json(stmts),
                       "summary": f"Graph.serialize(format='jelly') with no options, after a non-delimited write through "
                                  f"{history}: the output {problem}"})
    ctx.case(("default-after", history, data[:3].hex(), len(stmts)), True,
             sample={"kind": "default write after a history", "history": history, "header": data[:3].hex()})


def run_shard(ctx):
    rng = ctx.rng("hdr")
    for mode, hdr, desc in headers(ctx.tier, ctx.shard, ctx.nshards, rng):
        got = delimited_jelly_hint(hdr)
        ctx.observe("headers-checked")
        ctx.observe(f"class:{desc}")
        if got == mode and (hdr[1] + hdr[2]) % 5 == 0:
            # the hint looks at the stream's FIRST bytes: handing it more of the stream (a peeked buffer, the whole payload)
            # must not change what it says
            longer = [delimited_jelly_hint(hdr + tail) for tail in (b"\x00", b"\x0a\x0a\x0a\x0a", bytes(61))]
            ctx.observe("headers-checked-with-a-longer-buffer")
            if any(x != mode for x in longer):
                got = not mode
                desc = desc + " (hint given 4 / 7 / 64 bytes of the stream instead of 3)"
        if got != mode:
            ctx.violation({"clause": "misclassified", "header": hdr.hex(), "mode": "delimited" if mode else "non-delimited",
                           "summary": f"{desc}: header {hdr.hex()} of a {'delimited' if mode else 'non-delimited'} stream "
                                      f"classified as {'delimited' if got else 'non-delimited'}"})
        nt = 0x0A in hdr[1:3]
        ctx.case(("h", hdr.hex(), mode), nt, sample={"kind": "header", "header": hdr.hex(), "mode": desc} if nt else None)
    ctx.extra["headers_complete"] = True
    if ctx.shard == 1 % ctx.nshards:
        boundary_frames(ctx, rng)
    if ctx.shard == 0:
        for desc, o, first, rest in real_stream_cases(rng):
            w = judge_pair(desc, first, rest)
            ctx.observe("paired-streams-parsed")
            ctx.observe(f"crafted:{desc}")
            if w:
                ctx.violation(w)
            ctx.case(("crafted", desc), True, sample={"kind": "crafted", "desc": desc})
    if ctx.shard == 2 % ctx.nshards:
        first_frame_length_sweep(ctx)
    if ctx.shard == 3 % ctx.nshards:
        huge_frames(ctx)
    i = 0
    while not ctx.out_of_time() and i < (6 if ctx.tier == "quick" else 60):
        pyjelly_pairs(ctx, ctx.rng("pair", i))
        rdflib_writer_modes(ctx, ctx.rng("rdflib-modes", i))
        default_write_after_history(ctx, ctx.rng("default-after", i))
        i += 1


def EXHAUSTIVE(merged, tier):
    return tier == "thorough" and all(ex.get("headers_complete") for ex in merged["extra"]) \
        and len(merged["extra"]) == merged["shards"]


def replay(w: dict):
    if "header" in w and w.get("clause") == "misclassified" and "cfg" not in w:
        hdr = bytes.fromhex(w["header"])
        want = w["mode"] == "delimited"
        if delimited_jelly_hint(hdr) != want or (len(hdr) == 3 and any(
                delimited_jelly_hint(hdr + tail) != want for tail in (b"\x00", b"\x0a\x0a\x0a\x0a", bytes(61)))):
            return {"clause": "misclassified", "summary": f"header {w['header']} still misclassified"}
        return None
    if "cfg" in w:
        cfg = w["cfg"]
        cfg["preset"] = tuple(cfg["preset"])
        stmts = list(T.from_json(w["stmts"]))
        res = []
        for delimited in (True, False):
            cfg["delimited"] = delimited
            if cfg.get("options_transport") or cfg.get("explicit_flow"):
                import copy
                import pickle
                from pyjelly.serialize import flows as F
                try:
                    if cfg.get("options_transport"):
                        tr = {"copy": copy.copy, "deepcopy": copy.deepcopy, "pickle": lambda o: pickle.loads(pickle.dumps(o)),
                              "replace-params": _rebuild_options}[cfg["options_transport"]]
                        pj.OPTIONS_OVERRIDE = tr(pj.make_options(cfg))
                    else:
                        flow = F.ManualFrameFlow(logical_type=1) if cfg["explicit_flow"] == "manual" else F.FlatTriplesFrameFlow(frame_size=3)
                        pj.OPTIONS_OVERRIDE = pj.make_options(cfg, flow=flow)
                    data = pj.serialize(cfg, stmts)
                except Exception:  # noqa: BLE001 - a refusal is not what the witness was about
                    continue
                finally:
                    pj.OPTIONS_OVERRIDE = None
                if delimited_jelly_hint(data[:3]) != delimited:
                    return {"clause": "misclassified", "summary": f"header {data[:3].hex()}"}
                continue
            data = pj.serialize(cfg, stmts)
            if delimited_jelly_hint(data[:3]) != delimited:
                return {"clause": "misclassified", "summary": f"header {data[:3].hex()}"}
            try:
                res.append(T.norm_events(pj.parse("generic", "flat", data)))
            except Exception as ex:  # noqa: BLE001
                return {"clause": "parse-raised", "summary": str(ex)}
            bad = probe_sources(data, delimited, res[-1])
            if bad:
                return {"clause": "misclassified-through-source", "summary": f"{bad[0]}: {bad[2]}"}
        if len(res) < 2:
            return None
        if res[0] != res[1]:
            return {"clause": "paired-parse-differs", "summary": "differs"}
        twins = {}
        for delimited in (True, False):
            cfg["delimited"] = delimited
            twins[delimited] = pj.serialize(cfg, stmts)
        for delimited in (True, False):
            bad = parse_with_twins_options(twins[delimited], twins[not delimited], res[0])
            if bad:
                return {"clause": "framing-taken-from-passed-options", "summary": bad}
        return None
    if w.get("kind") == "huge-frame":
        return {"clause": w["clause"], "summary": "re-run ./check C08 with the same VERIF_SEED"}
    if w.get("kind") == "length-sweep":
        class _C:
            def __init__(self):
                self.v = []
            def violation(self, x):
                self.v.append(x)
            def observe(self, *a, **k):
                pass
            def case(self, *a, **k):
                pass
        c = _C()
        first_frame_length_sweep(c)
        return next((x for x in c.v if x["first_frame_length"] == w["first_frame_length"] and x["mode"] == w["mode"]), None)
    return {"clause": w.get("clause"), "summary": "re-run ./check C08 to reproduce crafted-stream witnesses"}


def classify(w: dict):
    return None
