"""C02 - rdflib Graph/Dataset round trip preserves the RDF data."""
from __future__ import annotations

import io

import rdflib

from .. import gen, pj, refdec, wire, workloads
from .. import terms as T

ID = "C02"
LEVEL = "exploration"
RULE = ("random RDF 1.1 graphs and datasets (default graph, IRI and blank-node graph names; plain, language-tagged, xsd:string "
        "and typed literals) are written with Graph.serialize(format='jelly', options=/stream=), flat_stream_to_file, "
        "grouped_stream_to_file and stream_frames over Triple/Quad/GraphStream, flat and grouped logical types, presets >= "
        "need (and, in ~15% of the cases, prefix/datatype tables of 1-3 entries that a statement may overflow: a refusal "
        "with JellyConformanceError is then accepted, written bytes must still round-trip; in ~15% the caller's ONE options object "
        "was first used for a serialization that aborted on a non-RDF term, and the retry is judged), frame sizes, delimited and (flat) non-delimited; read back with Graph.parse / Dataset.parse(format='jelly'), "
        "parse_jelly_flat, parse_jelly_grouped (union) and parse_jelly_to_graph, from a seekable file positioned behind a container header and through a real OS pipe, and again while another Jelly file (the previous "
        "case's bytes) is being parsed in the same process (two flat parsers in lockstep; Dataset.parse inside a loop over the "
        "grouped parser's frames). Oracle: field-by-field equality (never "
        "rdflib ==) of the SETS of triples / quads incl. graph names. A second pass runs with rdflib.NORMALIZE_LITERALS = "
        "False. Non-trivial: dataset with >= 2 graphs or a blank-node graph name, or a stream with >= 1 eviction; distinct by "
        "hash of (config, statements). One case in six writes 2-5 Graphs/Datasets through ONE stream (grouped_stream_to_frames/_to_file, "
        "60 % with their repeating namespace bindings declared) and reads the union back. Every shard first runs a frame-length sweep: one-statement graphs whose literal is sized so that "
        "the delimited frame is exactly 126..130, 16382..16513 and 2097150..2113537 (sampled) bytes long (every shape of the "
        "length prefix), written by Graph.serialize and flat_stream_to_file, read by every reader and an independent framing reader.")
ASSUMPTIONS = [
    "lexical forms are canonical for the datatypes rdflib knows, so rdflib's own literal normalisation cannot change them",
    "one spelling per language tag per input (rdflib compares language tags case-insensitively)",
    "the IRI urn:x-rdflib:default is rdflib's name for the default graph and is not used as an ordinary graph name",
]
ANCHORS = ["pyjelly/integrations/rdflib/serialize.py", "pyjelly/integrations/rdflib/parse.py",
           "pyjelly/integrations/rdflib/__init__.py", "pyjelly/serialize/streams.py", "pyjelly/serialize/encode.py",
           "pyjelly/parse/decode.py"]
MARKERS = {
    "rdflib-default-graph-written": ("pyjelly/integrations/rdflib/serialize.py", r"if term == DATASET_DEFAULT_GRAPH_ID"),
    "rdflib-bnode-graph-written": ("pyjelly/integrations/rdflib/serialize.py", r"statement\.g_bnode = str\(term\)"),
    "rdflib-plugin-parser": ("pyjelly/integrations/rdflib/parse.py", r"class RDFLibJellyParser"),
}
REQUIRED_OBSERVED = ["roundtrips", "boundary-frame-length-roundtrips", "reader:graph.parse", "reader:flat", "reader:grouped", "reader:to_graph"]
MANIFEST = {
    "text": "Set-equality oracle (field-wise through a neutral term model) over generated rdflib Graph/Dataset round trips "
            "through the public rdflib API and the stream functions, all three stream classes, flat and grouped logical "
            "types, both framings, with literal normalisation on and off.",
    "note": "rdflib 7.6.0 behaviours are kept out of the verdict as listed under assumptions. Inputs/configurations not "
            "generated are not covered.",
    "technique": "runtime monitoring: round-trip set oracle at the rdflib API boundary, field-wise term comparison",
}


def plan(tier: str) -> dict:
    return {"shards": 4, "budget_s": 35} if tier == "quick" else {"shards": 16, "budget_s": 400}


GROUPED_FOR = {1: [3, 13], 2: [4, 14, 114], 3: [4, 14]}


def make_case(rng, max_len=40):
    cfg, stmts, _ = workloads.rdflib_case(rng, max_len)
    if cfg["delimited"] and cfg["entry"] in ("graph_serialize", "grouped_to_file", "stream_frames_store") and rng.random() < .35:
        cfg["logical"] = rng.choice(GROUPED_FOR[cfg["physical"]])
    if cfg["entry"] == "graph_serialize" and rng.random() < .4 and cfg["physical"] != 3:
        cfg["entry"] = "graph_serialize_options"
    elif cfg["entry"] == "graph_serialize" and rng.random() < .3:
        cfg["entry"] = "graph_serialize_path"       # destination given as a file name
    if cfg["entry"] in ("flat_frames", "flat_to_file", "stream_frames_gen") and rng.random() < .35:
        cfg["plain_tuples"] = True            # plain (s, p, o[, g]) tuples instead of pyjelly's Triple / Quad objects
        if cfg["entry"] != "stream_frames_gen" and cfg["delimited"] and rng.random() < .5:
            cfg["no_options"] = True          # ... and no options at all: everything guessed from the first statement
            cfg["preset"] = (4000, 150, 32)
    if cfg["entry"] in ("graph_serialize", "graph_serialize_options", "graph_serialize_path", "stream_frames_store") and rng.random() < .06:
        # an EMPTY Graph / Dataset (or a Dataset that holds only empty named graphs): what is written must read back as empty
        stmts = []
        if not (cfg.get("empty_graphs") and rng.random() < .5):
            cfg["empty_graphs"] = []
    if rng.random() < .15 and stmts and not cfg.get("no_options"):
        cfg["failed_attempt_first"] = rng.randint(1, len(stmts))
    if rng.random() < .15 and not cfg.get("no_options"):
        # 'all lookup presets': prefix / datatype tables smaller than what one statement may need.  The serializer
        # may refuse such a statement (C18); whatever it does write must still read back as the input.
        n, p, d = cfg["preset"]
        cfg["preset"] = (n, rng.choice([1, 2, 3]) if p else 0, rng.choice([1, 2, d]) if d else 0)
    return cfg, stmts


def serialize_after_failed_attempt(cfg: dict, stmts: list) -> bytes:
    """The caller keeps ONE SerializerOptions object.  A first serialization with it aborts on a term that is not RDF
    (after some statements were already taken); the caller drops the offending statement and serializes again with the
    same options object.  Only the second call's output is judged."""
    from pyjelly.integrations.rdflib import serialize as rser

    opts = pj.make_options(cfg)
    k = cfg["failed_attempt_first"]
    natives = [T.stmt_to_rdflib(s) for s in stmts[:k]]
    bad = tuple(list(natives[-1][:2]) + [object()] + list(natives[-1][3:]))
    pj.OPTIONS_OVERRIDE = opts
    try:
        try:
            if cfg["physical"] == 1 and k % 2:
                g = rdflib.Graph()
                for t in natives:
                    g.add(t)
                g.add((natives[-1][0], natives[-1][1], rdflib.Variable("x")))
                g.serialize(destination=io.BytesIO(), format="jelly", options=opts)
            else:
                for _fr in rser.flat_stream_to_frames(iter(natives + [bad]), options=opts):
                    pass
        except Exception:  # noqa: BLE001 - the first attempt is meant to fail
            pass
        return pj.serialize(cfg, stmts)
    finally:
        pj.OPTIONS_OVERRIDE = None


def undersized(cfg: dict, stmts: list) -> bool:
    """Does some statement need more entries of a table than the preset gives it?"""
    n, p, d = cfg["preset"]
    np_, nn, nd = gen.need_of(stmts, cfg["physical"], p > 0)
    return np_ > p > 0 or nn > n or (nd > d > 0)


def delimited_guess(data: bytes) -> bool:
    return wire.is_delimited_by_construction(data)


def read_back(data: bytes, physical: int, reader: str) -> list:
    if reader == "graph.parse-path":
        import os
        import tempfile
        fd, path = tempfile.mkstemp(suffix=".jelly", prefix="rv-c02-")
        try:
            with os.fdopen(fd, "wb") as f:
                f.write(data)
            store = rdflib.Graph(bind_namespaces="none") if physical == 1 else rdflib.Dataset(default_union=False)
            store.parse(path, format="jelly")           # source given as a file name
            return T.rdflib_store_statements(store)
        finally:
            os.unlink(path)
    if reader == "graph.parse":
        store = rdflib.Graph(bind_namespaces="none") if physical == 1 else rdflib.Dataset(default_union=False)
        store.parse(data=data, format="jelly")
        return T.rdflib_store_statements(store)
    if reader in ("flat@offset", "graph.parse@offset"):
        # the Jelly section sits behind a container header in a seekable file object positioned at its first byte
        pre = b"\x0a\x00container" if delimited_guess(data) else b"\x00\x01container"
        f = io.BytesIO(pre + data)
        f.seek(len(pre))
        if reader == "flat@offset":
            return [e[1] for e in pj.parse("rdflib", "flat", f) if e[0] == "stmt"]
        import os
        import tempfile
        fd, path = tempfile.mkstemp(suffix=".bin", prefix="rv-c02-")
        try:
            with os.fdopen(fd, "wb") as out:
                out.write(pre + data)
            store = rdflib.Graph(bind_namespaces="none") if physical == 1 else rdflib.Dataset(default_union=False)
            with open(path, "rb") as fh:           # a real file (rdflib wants a .name), positioned behind the header
                fh.seek(len(pre))
                store.parse(file=fh, format="jelly")
            return T.rdflib_store_statements(store)
        finally:
            os.unlink(path)
    if reader in ("flat@pipe", "graph.parse@pipe"):
        # the bytes arrive through a real OS pipe (a subprocess's stdout, a FIFO): buffered, non-seekable
        import os
        import threading
        r, w = os.pipe()

        def feed():
            try:
                with os.fdopen(w, "wb") as out:
                    out.write(data)
            except OSError:
                pass
        t = threading.Thread(target=feed, daemon=True)
        t.start()
        with os.fdopen(r, "rb") as fh:
            try:
                if reader == "flat@pipe":
                    return [e[1] for e in pj.parse("rdflib", "flat", fh) if e[0] == "stmt"]
                store = rdflib.Graph(bind_namespaces="none") if physical == 1 else rdflib.Dataset(default_union=False)
                store.parse(source=fh, format="jelly")
                return T.rdflib_store_statements(store)
            finally:
                try:
                    fh.read()          # let the feeder finish whatever happened
                except Exception:  # noqa: BLE001
                    pass
                t.join(5)
    if reader == "flat":
        return [e[1] for e in pj.parse("rdflib", "flat", data) if e[0] == "stmt"]
    if reader == "grouped":
        return [e[1] for e in pj.parse("rdflib", "grouped", data) if e[0] == "stmt"]
    if reader == "to_graph":
        return [e[1] for e in pj.parse("rdflib", "to_graph", data) if e[0] == "stmt"]
    raise ValueError(reader)


def read_alongside(data: bytes, other: bytes, physical: int, how: str) -> list:
    """Read `data` back while ANOTHER Jelly parse is in progress in the same process."""
    from pyjelly.integrations.rdflib import parse as rparse
    if how == "flat-lockstep":
        # two files read in lockstep: zip(parse_jelly_flat(f1), parse_jelly_flat(f2)), the longer one finished afterwards
        a, b = rparse.parse_jelly_flat(io.BytesIO(data)), rparse.parse_jelly_flat(io.BytesIO(other))
        got = []
        a_live = b_live = True
        while a_live or b_live:
            if a_live:
                x = next(a, None)
                if x is None:
                    a_live = False
                else:
                    got.append(x)
            if b_live and next(b, None) is None:
                b_live = False
        return [e[1] for e in (T.event_from_rdflib(x) for x in got) if e[0] == "stmt"]
    # Graph.parse of another file inside a loop over this file's frames
    out = []
    for store in rparse.parse_jelly_grouped(io.BytesIO(data), graph_factory=lambda: rdflib.Graph(bind_namespaces="none"),
                                            dataset_factory=lambda: rdflib.Dataset(default_union=False)):
        out.extend(T.rdflib_store_statements(store))
        side = rdflib.Dataset(default_union=False)
        side.parse(data=other, format="jelly")
    return out


_OTHER: list = [None]


def roundtrip(cfg: dict, stmts: list, normalize: bool = True, other: bytes | None = None):
    """-> (witness or None, data)"""
    old = rdflib.NORMALIZE_LITERALS
    rdflib.NORMALIZE_LITERALS = normalize
    try:
        try:
            if cfg.get("failed_attempt_first"):
                data = serialize_after_failed_attempt(cfg, stmts)
            else:
                data = pj.serialize(cfg, stmts)
        except Exception as e:  # noqa: BLE001
            if type(e).__name__ == "JellyConformanceError" and undersized(cfg, stmts):
                return {"clause": "refused-undersized", "summary": "refused"}, None     # not a violation (see run_shard)
            return {"clause": "serializer-raised", "summary": f"{type(e).__name__}: {e}"}, None
        want = {T.norm_stmt(s) for s in stmts}
        for reader in ("graph.parse", "graph.parse-path", "flat", "grouped", "to_graph", "flat@offset", "graph.parse@offset",
                       "flat@pipe", "graph.parse@pipe"):
            try:
                got = {T.norm_stmt(s) for s in read_back(data, cfg["physical"], reader)}
            except Exception as e:  # noqa: BLE001
                return {"clause": "parser-raised", "reader": reader, "summary": f"{reader}: {type(e).__name__}: {e}",
                        "bytes": data.hex()}, data
            if got != want:
                extra = sorted(got - want, key=repr)[:2]
                missing = sorted(want - got, key=repr)[:2]
                return {"clause": "data-differs", "reader": reader, "bytes": data.hex(),
                        "summary": f"{reader}: {len(got)} statements read, {len(want)} written; extra={extra} missing={missing}"}, data
        if other:
            for how in ("flat-lockstep", "graph.parse-inside-grouped-loop"):
                try:
                    got = {T.norm_stmt(s) for s in read_alongside(data, other, cfg["physical"], how)}
                except Exception as e:  # noqa: BLE001
                    return {"clause": "parser-raised", "reader": how, "summary": f"{how}: {type(e).__name__}: {e}",
                            "bytes": data.hex(), "other_bytes": other.hex()}, data
                if got != want:
                    extra = sorted(got - want, key=repr)[:2]
                    missing = sorted(want - got, key=repr)[:2]
                    return {"clause": "data-differs", "reader": how, "bytes": data.hex(), "other_bytes": other.hex(),
                            "summary": f"{how} (another Jelly file being read at the same time): {len(got)} statements read, "
                                       f"{len(want)} written; extra={extra} missing={missing}"}, data
        return None, data
    finally:
        rdflib.NORMALIZE_LITERALS = old


BOUNDARY_LENGTHS = ([126, 127, 128, 129, 130, 16382, 16383] + list(range(16384, 16514)) +
                    [2097150, 2097151, 2097152, 2097153, 2097280, 2101000, 2113535, 2113536, 2113537])


def boundary_frame_lengths(ctx):
    """One-statement graphs whose literal is sized so that the delimited frame is exactly L bytes long, L stepping over
    every place where the frame's length prefix changes shape (1 -> 2 -> 3 -> 4 bytes and the first/last values of
    each second and third prefix byte): written by Graph.serialize / flat_stream_to_file, read back by every reader."""
    base = {"integration": "rdflib", "physical": 1, "logical": 1, "frame_size": 250, "preset": (8, 4, 0),
            "generalized": False, "rdf_star": False, "stream_name": "", "ns": False}

    def frame_len(k):
        cfg = dict(base, entry="flat_frames", delimited=False)
        return len(pj.serialize(cfg, [(("iri", "http://e/s"), ("iri", "http://e/p"), ("lit", "x" * k, None, None))]))

    overhead = frame_len(0)
    mine = [L for j, L in enumerate(BOUNDARY_LENGTHS) if j % ctx.nshards == ctx.shard and (L < 100000 or ctx.shard < 3 or ctx.tier != "quick")]
    for L in mine:
        if ctx.out_of_time():
            break
        k = max(0, L - overhead - 24)
        while frame_len(k) < L:
            k += 1
        if frame_len(k) != L:
            continue                          # the literal's own length varint grew: this L is not constructible
        stmts = [(("iri", "http://e/s"), ("iri", "http://e/p"), ("lit", "x" * k, None, None))]
        for entry in ("graph_serialize", "flat_to_file"):
            cfg = dict(base, entry=entry, delimited=True)
            w, data = roundtrip(cfg, stmts, False)
            ctx.observe("boundary-frame-length-roundtrips")
            if w is None and data is not None:
                try:
                    frames = wire.dec_stream(data, True)
                    if len(frames) != 1:
                        w = {"clause": "data-differs", "summary": f"independent framing reader sees {len(frames)} frames in a one-frame stream"}
                except Exception as e:  # noqa: BLE001
                    w = {"clause": "data-differs", "summary": f"independent framing reader: {type(e).__name__}: {e}"}
            if w is not None:
                w.pop("bytes", None)
                w.update({"cfg": cfg, "stmts": T.to_json(stmts), "normalize": False, "frame_length": L,
                          "summary": f"one-statement graph whose delimited frame is {L} bytes long: {w['summary'][:300]}"})
                ctx.violation(w)
            ctx.case(("boundary", L, entry), True, sample={"kind": "boundary-frame-length", "frame_length": L, "entry": entry})


def multi_store_case(ctx, rng):
    """Several Graphs / Datasets written through ONE stream (grouped_stream_to_frames / _to_file), half of the cases with the
    stores' (repeating) namespace bindings declared: the union read back must be the union written."""
    cfg, groups, nss = workloads.multi_sink_case(rng, with_ns=rng.random() < .6)
    cfg["integration"] = "rdflib"
    try:
        data = pj.serialize_groups(cfg, groups, nss)
    except Exception as e:  # noqa: BLE001
        ctx.observe(f"multi-store-serializer-raised:{type(e).__name__}")
        ctx.case(("multi", sorted(cfg.items()), groups, nss), False)
        return
    ctx.observe("multi-store-roundtrips")
    ctx.observe("roundtrips")
    want = {T.norm_stmt(s) for g in groups for s in g}
    w = None
    for reader in ("graph.parse", "flat", "grouped", "to_graph", "flat@pipe"):
        try:
            got = {T.norm_stmt(s) for s in read_back(data, cfg["physical"], reader)}
        except Exception as e:  # noqa: BLE001
            w = {"clause": "parser-raised", "reader": reader, "summary": f"{reader}: {type(e).__name__}: {e}"}
            break
        if got != want:
            w = {"clause": "data-differs", "reader": reader,
                 "summary": f"{reader}: {len(got)} statements read, {len(want)} written; extra={sorted(got - want, key=repr)[:2]} "
                            f"missing={sorted(want - got, key=repr)[:2]}"}
            break
    if w is not None:
        w.update({"cfg": cfg, "groups": T.to_json(groups), "nss": nss, "bytes": data.hex(), "kind": "multi-store",
                  "summary": f"{len(groups)} stores through one stream (declarations {'on' if cfg['ns'] else 'off'}): " + w["summary"]})
        ctx.violation(w)
    ctx.case(("multi", sorted(cfg.items()), groups, nss), len(groups) >= 2,
             sample={"kind": "multi-store", "cfg": cfg, "stores": len(groups), "bindings": [len(n) for n in nss]})


def run_shard(ctx):
    boundary_frame_lengths(ctx)
    i = 0
    while not ctx.out_of_time():
        rng = ctx.rng(i)
        i += 1
        if i % 6 == 0:
            multi_store_case(ctx, rng)
            continue
        cfg, stmts = make_case(rng, 40 if ctx.tier == "quick" else rng.choice([40, 200]))
        normalize = rng.random() < .7
        other = _OTHER[0]
        w, data = roundtrip(cfg, stmts, normalize, other)
        if data and w is None:
            _OTHER[0] = data           # the next case is read back next to this one
        if other:
            ctx.observe("reader:flat-lockstep-with-another-parse")
            ctx.observe("reader:graph.parse-inside-grouped-loop")
        ctx.observe("roundtrips")
        ctx.observe(f"entry:{cfg['entry']}")
        ctx.observe(f"physical:{cfg['physical']}:logical:{cfg['logical']}")
        ctx.observe("normalize-literals-on" if normalize else "normalize-literals-off")
        for r in ("graph.parse", "graph.parse-path", "flat", "grouped", "to_graph"):
            ctx.observe(f"reader:{r}")
        if undersized(cfg, stmts):
            ctx.observe("undersized-table-cases")
        if cfg.get("failed_attempt_first"):
            ctx.observe("retry-after-failed-attempt-with-same-options-object")
        if w is not None and w["clause"] == "refused-undersized":
            ctx.observe("undersized-table-cases-refused")
            ctx.case((cfg, stmts), False)
            continue
        if w is not None:
            small = workloads.shrink_list(stmts, lambda s: [(roundtrip(cfg, s, normalize, other)[0] or {}).get(k) for k in ("clause", "reader")] == [w["clause"], w.get("reader")], 80)
            w2 = roundtrip(cfg, small, normalize, other)[0] or w
            w2.update({"cfg": cfg, "stmts": T.to_json(small), "normalize": normalize})
            ctx.violation(w2)
            ctx.case((cfg, stmts), False)
            continue
        graphs = {s[3] for s in stmts if len(s) == 4}
        ev = 0
        try:
            c = refdec.decode(wire.dec_stream(data, cfg["delimited"])).counters
            ev = c["name-eviction"] + c["prefix-eviction"] + c["datatype-eviction"]
        except Exception:  # noqa: BLE001
            pass
        nt = len(graphs) >= 2 or any(g[0] == "bnode" for g in graphs) or ev > 0
        if any(g[0] == "bnode" for g in graphs):
            ctx.observe("cases-with-bnode-graph")
        if ("default",) in graphs:
            ctx.observe("cases-with-default-graph")
        ctx.case((sorted(cfg.items()), stmts, normalize), nt,
                 sample={"cfg": cfg, "n_statements": len(stmts), "graphs": len(graphs), "first": T.to_json(stmts[:2])})


def replay(w: dict):
    cfg = w["cfg"]
    cfg["preset"] = tuple(cfg["preset"])
    if w.get("kind") == "multi-store":
        groups = [list(T.from_json(g)) for g in w["groups"]]
        nss = [[tuple(b) for b in n] for n in w["nss"]]
        data = pj.serialize_groups(cfg, groups, nss)
        want = {T.norm_stmt(s) for g in groups for s in g}
        try:
            got = {T.norm_stmt(s) for s in read_back(data, cfg["physical"], w.get("reader", "flat"))}
        except Exception as e:  # noqa: BLE001
            return {"clause": "parser-raised", "summary": f"{type(e).__name__}: {e}"}
        return None if got == want else {"clause": "data-differs", "summary": f"{len(got)} read, {len(want)} written"}
    r = roundtrip(cfg, list(T.from_json(w["stmts"])), w.get("normalize", True),
                  bytes.fromhex(w["other_bytes"]) if w.get("other_bytes") else None)[0]
    return None if r and r["clause"] == "refused-undersized" else r


def classify(w: dict):
    return None
