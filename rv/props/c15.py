"""C15 - all parsing entry points and both integrations agree."""
from __future__ import annotations

import io

from .. import gen, pj, refdec, refenc, wire, workloads
from .. import terms as T

from pyjelly.integrations.generic import serialize as gser  # noqa: E402
from pyjelly.integrations.rdflib import serialize as rser  # noqa: E402

ID = "C15"
LEVEL = "exploration"
RULE = ("PARSE: valid RDF 1.1 streams (from both pyjelly serializers and from the reference producer, all physical types, "
        "with and without namespace rows) are parsed with the six entry points and the two-step get_options_and_frames + "
        "parse_jelly_flat(frames=, options=) form; per integration flat == concatenated "
        "grouped == to_graph (sequence for generic, set for rdflib stores), and the generic and rdflib flat event sequences "
        "correspond term for term through the neutral model (IRI strings, bnode labels, lexical forms, language tags, "
        "datatypes, graph names, Prefix events). WRITE: the two serializers are given corresponding input (the same "
        "statement sequence as generator; stores built in the same iteration order) and the same explicit "
        "SerializerOptions for Triple/Quad/GraphStream via flat_stream_to_frames, stream_frames and "
        "grouped_stream_to_frames (also 2-5 sinks with repeating namespace bindings through one stream); the bytes must be identical. Non-trivial: streams with >= 2 frames or >= 1 eviction "
        "(parse) / inputs with >= 1 separator-less IRI or >= 2 graphs (write); distinct by hash of bytes / input.")
ASSUMPTIONS = [
    "store-based serializer comparison feeds the generic sink in the rdflib store's own iteration order (rdflib stores have no caller-defined order)",
    "GraphStream is compared on generator input only: an rdflib Dataset always carries a (possibly empty) default graph that a generic sink cannot express",
]
ANCHORS = ["pyjelly/integrations/generic/parse.py", "pyjelly/integrations/rdflib/parse.py",
           "pyjelly/integrations/generic/serialize.py", "pyjelly/integrations/rdflib/serialize.py", "pyjelly/parse/decode.py"]
MARKERS = {
    "rdflib-literal-adapter": ("pyjelly/integrations/rdflib/parse.py", r"return rdflib\.Literal\(lex, lang=language"),
    "generic-literal-adapter": ("pyjelly/integrations/generic/parse.py", r"return Literal\(lex, language, datatype\)"),
}
REQUIRED_OBSERVED = ["parse-agreement-cases", "serializer-pairs-compared"]
MANIFEST = {
    "text": "Differential monitor: six parse entry points on the same bytes and two serializers on corresponding inputs, "
            "compared term by term through a neutral model / byte for byte.",
    "note": "Differential only: a defect common to both integrations is invisible here (C01-C04 cover that).",
    "technique": "runtime monitoring: differential comparison of entry points and integrations (events and bytes)",
}


def plan(tier: str) -> dict:
    return {"shards": 4, "budget_s": 35} if tier == "quick" else {"shards": 16, "budget_s": 300}


# ------------------------------------------------------------------ parse agreement

def parse_agreement(data: bytes):
    res = {}
    for integ in ("generic", "rdflib"):
        for entry in ("flat", "flat-prefetched", "grouped", "to_graph"):
            try:
                res[(integ, entry)] = T.norm_events(pj.parse(integ, entry, data))
            except Exception as e:  # noqa: BLE001
                return {"clause": "parser-raised", "summary": f"{integ}:{entry}: {type(e).__name__}: {e}"}
    g_flat, r_flat = res[("generic", "flat")], res[("rdflib", "flat")]
    if g_flat != r_flat:
        i = next((k for k, (a, b) in enumerate(zip(g_flat, r_flat)) if a != b), min(len(g_flat), len(r_flat)))
        return {"clause": "integrations-differ", "summary": f"flat: generic {g_flat[i] if i < len(g_flat) else None} vs rdflib "
                                                            f"{r_flat[i] if i < len(r_flat) else None} at {i}"}
    for integ in ("generic", "rdflib"):
        if res[(integ, "flat-prefetched")] != res[(integ, "flat")]:
            return {"clause": "entry-points-differ", "summary": f"{integ}: parse_jelly_flat(frames=, options=) after "
                                                                f"get_options_and_frames differs from parse_jelly_flat(inp)"}
    st = [e for e in g_flat if e[0] == "stmt"]
    for integ in ("generic", "rdflib"):
        for entry in ("grouped", "to_graph"):
            got = [e for e in res[(integ, entry)] if e[0] == "stmt"]
            same = (got == st) if integ == "generic" else (set(got) == set(st))
            if not same:
                return {"clause": "entry-points-differ", "summary": f"{integ}:{entry} gives {len(got)} statements, flat {len(st)}"}
    # grouped parsing group by group: both integrations hand out the same NUMBER of graphs / datasets (one per frame, empty
    # ones included) holding the same statements
    try:
        gg = [set(T.norm_events(sink[0])) for sink in pj.parse_grouped("generic", data)]
        rg = [set(T.norm_events(sink[0])) for sink in pj.parse_grouped("rdflib", data)]
    except Exception as e:  # noqa: BLE001
        return {"clause": "parser-raised", "summary": f"grouped, group by group: {type(e).__name__}: {e}"}
    if len(gg) != len(rg):
        return {"clause": "integrations-differ", "summary": f"grouped: generic hands out {len(gg)} sinks, rdflib {len(rg)} for the same bytes"}
    for k, (a, b) in enumerate(zip(gg, rg)):
        if a != b:
            return {"clause": "integrations-differ", "summary": f"grouped: sink {k} holds {len(a)} statements with generic, {len(b)} with rdflib"}
    # with logical_type_strict=True the two integrations must take the SAME decision on the same bytes (accept or refuse),
    # and where they accept, deliver the same statements as without the flag
    for entry in ("flat", "grouped"):
        outcome = {}
        for integ in ("generic", "rdflib"):
            try:
                evs = T.norm_events(pj.parse(integ, entry, data, logical_type_strict=True))
                outcome[integ] = ("accepted", [e for e in evs if e[0] == "stmt"])
            except Exception as e:  # noqa: BLE001
                outcome[integ] = ("refused", type(e).__name__)
        if outcome["generic"][0] != outcome["rdflib"][0]:
            return {"clause": "integrations-differ", "summary": f"{entry} with logical_type_strict=True: generic {outcome['generic'][0]}, "
                                                                f"rdflib {outcome['rdflib'][0]} ({outcome['generic'][1] if outcome['generic'][0] == 'refused' else outcome['rdflib'][1]})"}
        if outcome["generic"][0] == "accepted":
            for integ in ("generic", "rdflib"):
                a = outcome[integ][1]
                same = (a == st) if integ == "generic" else (set(a) == set(st))
                if not same:
                    return {"clause": "entry-points-differ", "summary": f"{integ}:{entry} with logical_type_strict=True gives other statements than without"}
    # the entry points used TOGETHER on one file (a preview of the first statements with the flat parser, then a full load
    # with another entry point, then the rest of the preview): every one must still give what it gives alone
    import io
    for integ in ("generic", "rdflib"):
        mod = gparse_mod() if integ == "generic" else rparse_mod()
        conv = T.event_from_generic if integ == "generic" else T.event_from_rdflib
        try:
            it = iter(mod.parse_jelly_flat(io.BytesIO(data)))
            together = []
            first = next(it, None)
            if first is not None:
                together.append(conv(first))
            inner = {entry: T.norm_events(pj.parse(integ, entry, data)) for entry in ("to_graph", "grouped")}
            together.extend(conv(x) for x in it)
        except Exception as e:  # noqa: BLE001
            return {"clause": "parser-raised", "summary": f"{integ}: flat parse suspended after its first item while to_graph / grouped "
                                                          f"read the same bytes: {type(e).__name__}: {e}"}
        if T.norm_events(together) != res[(integ, "flat")]:
            return {"clause": "entry-points-differ", "summary": f"{integ}: a flat parse that was suspended while to_graph / grouped read the "
                                                                f"same bytes gives other events than the flat parse alone"}
        for entry, got in inner.items():
            a, b = [e for e in got if e[0] == "stmt"], [e for e in res[(integ, entry)] if e[0] == "stmt"]
            if (a != b) if integ == "generic" else (set(a) != set(b)):
                return {"clause": "entry-points-differ", "summary": f"{integ}:{entry} run while a flat parse of the same bytes was "
                                                                    f"suspended gives other statements than {entry} alone"}
    return None


def gparse_mod():
    from pyjelly.integrations.generic import parse as m
    return m


def rparse_mod():
    from pyjelly.integrations.rdflib import parse as m
    return m


def parse_case(ctx, rng):
    src = rng.choice(["refenc", "pyjelly-generic", "pyjelly-rdflib"])
    if src == "refenc":
        vs = workloads.valid_stream(rng, mode="rdf11", producer="refenc", max_len=25)
        if vs is None:
            return
        data = vs["data"]
        delimited = vs["delimited"]
    else:
        cfg, stmts, ns = workloads.rdflib_case(rng, 25) if src == "pyjelly-rdflib" else (None, None, None)
        if src == "pyjelly-generic":
            phys = rng.choice([1, 2, 3])
            stmts = gen.statements(rng, rng.randint(1, 25), 3 if phys == 1 else 4, "rdf11")
            cfg = {"integration": "generic", "physical": phys, "entry": rng.choice(pj.GENERIC_ENTRIES[phys][:5]),
                   "frame_size": rng.choice(gen.FRAME_SIZES), "preset": gen.preset_for(rng, stmts, phys), "delimited": True,
                   "logical": pj.FLAT_LOGICAL[phys], "generalized": False, "rdf_star": False}
        try:
            data = pj.serialize(cfg, stmts)
        except Exception:  # noqa: BLE001
            ctx.observe("serializer-raised (C01/C02 judge)")
            return
        delimited = cfg["delimited"]
    w = parse_agreement(data)
    ctx.observe("parse-agreement-cases")
    ctx.observe(f"parse-source:{src}")
    if w:
        w.update({"part": "parse", "bytes": data.hex(), "source": src})
        ctx.violation(w)
    nt = False
    try:
        r = refdec.decode(wire.dec_stream(data, delimited))
        nt = len(r.rows_per_frame) >= 2 or (r.counters["name-eviction"] + r.counters["prefix-eviction"]) > 0
    except Exception:  # noqa: BLE001
        pass
    ctx.case(gen.case_hash(data), nt, sample={"part": "parse", "source": src, "bytes": len(data)})


# ------------------------------------------------------------------ serializer byte identity

def ser_bytes(integ: str, cfg: dict, entry: str, stmts: list, ns: list):
    mod = gser if integ == "generic" else rser
    conv = T.stmt_to_generic if integ == "generic" else T.stmt_to_rdflib
    options = pj.make_options(cfg)
    out = io.BytesIO()
    if entry == "flat_stream_to_frames":
        frames = mod.flat_stream_to_frames((conv(s) for s in stmts), options)
    elif entry == "stream_frames_gen":
        frames = mod.stream_frames(pj.make_stream({"integration": integ, "physical": cfg["physical"]}, options),
                                   (conv(s) for s in stmts))
    elif entry in ("stream_frames_store", "grouped_stream_to_frames"):
        dataset = cfg["physical"] != 1
        store = pj.rdflib_store_of(stmts, ns, dataset=dataset)
        if integ == "rdflib":
            data_obj = store
        else:
            # the generic sink gets the statements in the rdflib store's own iteration order
            order = list(store.quads()) if dataset else list(store)
            neutral = [tuple(T.from_rdflib(t, i == 3) for i, t in enumerate(q)) for q in order]
            data_obj = pj.generic_sink_of(neutral, [(p, str(u)) for p, u in store.namespaces()])
        if entry == "stream_frames_store":
            frames = mod.stream_frames(pj.make_stream({"integration": integ, "physical": cfg["physical"]}, options), data_obj)
        else:
            frames = mod.grouped_stream_to_frames((x for x in [data_obj]), options)
    else:
        raise ValueError(entry)
    pj.write_frames(frames, out, cfg["delimited"])
    return out.getvalue()


def write_case(ctx, rng):
    phys = rng.choice([1, 2, 3])
    arity = 3 if phys == 1 else 4
    stmts = gen.statements(rng, rng.randint(1, 30), arity, "rdf11")
    entry = rng.choice(["flat_stream_to_frames", "stream_frames_gen", "stream_frames_store", "grouped_stream_to_frames"])
    if phys == 3:
        entry = "stream_frames_gen"
    ns = []
    cfg = {"physical": phys, "frame_size": rng.choice(gen.FRAME_SIZES), "preset": gen.preset_for(rng, stmts, phys),
           "delimited": rng.random() < .85, "logical": pj.FLAT_LOGICAL[phys], "generalized": False, "rdf_star": False,
           "ns": False, "stream_name": rng.choice(["", "x"])}
    if entry in ("stream_frames_store", "grouped_stream_to_frames"):
        seen, out = set(), []
        for s in stmts:
            if T.norm_stmt(s) not in seen:     # stores are sets; xsd:string/plain twins would collapse differently
                seen.add(T.norm_stmt(s))
                out.append(s)
        stmts = out
        if rng.random() < .4:
            ns = workloads.bindings(rng, k=rng.randint(1, 4))
            cfg["ns"] = True
            n, p, d = cfg["preset"]
            np_, nn, nd = gen.need_of(stmts, phys, p > 0, [("ns", a, b) for a, b in ns])
            cfg["preset"] = (max(n, nn), max(p, np_) if p else 0, d)
        if entry == "grouped_stream_to_frames":
            cfg["delimited"] = True
    if entry == "flat_stream_to_frames" and phys == 3:
        entry = "stream_frames_gen"
    outs = {}
    for integ in ("generic", "rdflib"):
        try:
            outs[integ] = ser_bytes(integ, cfg, entry, stmts, ns)
        except Exception as e:  # noqa: BLE001
            outs[integ] = f"raised {type(e).__name__}: {e}"
    ctx.observe("serializer-pairs-compared")
    ctx.observe(f"write:{entry}:phys{phys}")
    if outs["generic"] != outs["rdflib"]:
        g, r = outs["generic"], outs["rdflib"]
        if isinstance(g, str) and isinstance(r, str):
            ctx.observe("both-serializers-raised")
        else:
            ctx.violation({"part": "write", "clause": "serializer-bytes-differ", "cfg": cfg, "entry": entry,
                           "stmts": T.to_json(stmts), "ns": ns,
                           "summary": f"{entry} phys={phys}: generic {g if isinstance(g, str) else str(len(g)) + ' bytes'} vs rdflib "
                                      f"{r if isinstance(r, str) else str(len(r)) + ' bytes'}"})
    sepless = any(t[0] == "iri" and "/" not in t[1] and "#" not in t[1] for s in stmts for t in s)
    graphs = {s[3] for s in stmts if len(s) == 4}
    ctx.case(("w", sorted(cfg.items()), entry, stmts, ns), sepless or len(graphs) >= 2,
             sample={"part": "write", "entry": entry, "physical": phys, "n_statements": len(stmts), "namespaces": len(ns)})


def multi_sink_write_case(ctx, rng):
    """Several graphs/sinks with (repeating) namespace bindings through ONE stream: both serializers, same bytes."""
    import rdflib

    cfg, groups, nss = workloads.multi_sink_case(rng, with_ns=rng.random() < .7)
    dataset = cfg["physical"] != 1
    if dataset and rng.random() < .3:
        # a stream of datasets whose FIRST dataset is empty (an empty generic sink cannot tell its arity from its content;
        # for triples that is outside the domain - DESIGN 7 - for quads both integrations build a QUADS stream)
        k = rng.choice([0, 0, rng.randrange(len(groups))])
        groups = [list(g) for g in groups]
        groups[k] = []
        ctx.observe("write:multi-sink-with-empty-dataset" + ("-first" if k == 0 else ""))
    stores = [pj.rdflib_store_of(g, n, dataset=dataset) for g, n in zip(groups, nss)]
    # the generic sinks get statements and bindings in the rdflib stores' own iteration order
    sinks = []
    for st in stores:
        order = list(st.quads()) if dataset else list(st)
        neutral = [tuple(T.from_rdflib(t, i == 3) for i, t in enumerate(q)) for q in order]
        sinks.append(pj.generic_sink_of(neutral, [(p, str(u)) for p, u in st.namespaces()]))
    outs = {}
    for integ, data_objs, mod in (("generic", sinks, gser), ("rdflib", stores, rser)):
        out = io.BytesIO()
        try:
            pj.write_frames(mod.grouped_stream_to_frames((x for x in data_objs), pj.make_options(cfg)), out, True)
            outs[integ] = out.getvalue()
        except Exception as e:  # noqa: BLE001
            outs[integ] = f"raised {type(e).__name__}: {e}"
    ctx.observe("serializer-pairs-compared")
    ctx.observe("write:multi-sink")
    g, r = outs["generic"], outs["rdflib"]
    if g != r and not (isinstance(g, str) and isinstance(r, str)):
        ctx.violation({"part": "write-multi", "clause": "serializer-bytes-differ", "cfg": cfg, "groups": T.to_json(groups), "nss": nss,
                       "summary": f"{len(groups)} sinks through one stream (ns={cfg['ns']}): generic "
                                  f"{g if isinstance(g, str) else str(len(g)) + ' bytes'} vs rdflib {r if isinstance(r, str) else str(len(r)) + ' bytes'}"})
    ctx.case(("wm", sorted(cfg.items()), groups, nss), len(groups) >= 2,
             sample={"part": "write-multi", "cfg": cfg, "group_sizes": [len(x) for x in groups], "bindings": [len(n) for n in nss]})


def run_shard(ctx):
    i = 0
    while not ctx.out_of_time():
        rng = ctx.rng(i)
        i += 1
        if i % 5 == 0:
            multi_sink_write_case(ctx, rng)
            continue
        (parse_case if i % 2 else write_case)(ctx, rng)


def replay(w: dict):
    if w.get("part") == "parse":
        return parse_agreement(bytes.fromhex(w["bytes"]))
    if w.get("part") == "write-multi":
        return {"clause": w["clause"], "summary": "multi-sink witnesses are reproduced by re-running ./check C15 with the same VERIF_SEED"}
    cfg = w["cfg"]
    cfg["preset"] = tuple(cfg["preset"])
    stmts = list(T.from_json(w["stmts"]))
    ns = [tuple(x) for x in w["ns"]]
    a = ser_bytes("generic", cfg, w["entry"], stmts, ns)
    b = ser_bytes("rdflib", cfg, w["entry"], stmts, ns)
    return None if a == b else {"clause": "serializer-bytes-differ", "summary": f"{len(a)} vs {len(b)} bytes"}


def classify(w: dict):
    return None
