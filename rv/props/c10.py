"""C10 - a truncated stream yields only a correct prefix of the data."""
from __future__ import annotations

import io

from .. import gen, pj, refdec, sources, wire, workloads
from .. import terms as T

ID = "C10"
LEVEL = "fault_enumeration"
RULE = ("valid delimited streams (2-30 frames; written by pyjelly and by the reference producer) are cut at EVERY byte offset "
        "0..len and each prefix is parsed with parse_jelly_flat of both integrations (in 40% of the streams also through the two-step "
        "get_options_and_frames + parse_jelly_flat(frames=, options=) path; every third cut also in lockstep with a parser of "
        "another, complete stream; parse_jelly_grouped too in thorough), from a "
        "BytesIO and from one other source per cut (a real file on disk; non-seekable raw, raw one byte at a time, buffered - each reports end-of-file after the "
        "cut and trips a logical-step guard if the parser polls it 2000 times at end-of-file). "
        "With S the full event list and F(k) the events of the frames lying wholly inside the first k bytes, the yielded list "
        "Y must satisfy Y == S[:len(Y)] and len(Y) >= len(F(k)), followed by normal end or an Exception. Non-trivial: cuts "
        "inside a length varint, inside an entry row, between an entry and its use, or exactly on a frame boundary "
        "(classified from byte offsets); distinct by (stream hash, offset).")
ASSUMPTIONS = [
    "frame boundaries and per-frame events come from rv.wire / rv.refdec on the uncut stream",
    "rdflib results are compared term by term through the neutral model",
]
ANCHORS = ["pyjelly/parse/ioutils.py", "pyjelly/parse/decode.py", "pyjelly/integrations/generic/parse.py",
           "pyjelly/integrations/rdflib/parse.py"]
MARKERS = {"frame-iterator": ("pyjelly/parse/ioutils.py", r"while frame := parse_length_prefixed")}
REQUIRED_OBSERVED = ["cuts-judged", "cut-source:raw-nonseekable", "cut-source:buffered-nonseekable", "cut-source:file-on-disk", "cut:inside-length-varint", "cut:on-frame-boundary", "cut:inside-entry-row"]
MIN_NONTRIVIAL = 100
MANIFEST = {
    "category": "fault_enumeration",
    "text": "Every crash point (byte offset) of each generated delimited stream is injected and the real streaming parsers' "
            "yield sequence is checked against the prefix / completeness oracle derived from the independent decoder's frame "
            "offsets.",
    "note": "Exhaustive over cut offsets per stream; streams are sampled. Trusted base: rv.wire frame offsets and rv.refdec "
            "per-frame events of the uncut stream.",
    "technique": "runtime monitoring with fault injection: every truncation offset, prefix oracle over yielded items",
}


def plan(tier: str) -> dict:
    return {"shards": 4, "budget_s": 40} if tier == "quick" else {"shards": 16, "budget_s": 400}


def classify_cut(k: int, frames: list, data: bytes) -> str:
    if k == 0:
        return "start"
    for fr in frames:
        a, b = fr["span"]
        if k == b:
            return "on-frame-boundary"
        if a < k < b:
            _ln, body = wire.dec_varint(data, a)
            if k < body:
                return "inside-length-varint"
            for (ra, rb), row in zip(fr["row_offsets"], fr["rows"]):
                if ra < k < rb:
                    return "inside-entry-row" if row[0] in ("name", "prefix", "datatype") else f"inside-{row[0]}-row"
                if k == rb:
                    return "between-entry-and-use" if row[0] in ("name", "prefix", "datatype") else "between-rows"
            return "inside-frame"
    return "other"


SOURCES = ["bytesio", "raw-nonseekable", "raw-nonseekable-1", "buffered-nonseekable", "buffered-nonseekable-dribble", "file-on-disk",
           "bytesio-after-preamble", "file-after-preamble"]
_TMP: list = []


def _tmpfile() -> str:
    import atexit
    import os
    import tempfile
    if not _TMP:
        fd, path = tempfile.mkstemp(prefix="rv-c10-", suffix=".jelly")
        os.close(fd)
        _TMP.append(path)
        atexit.register(lambda: os.path.exists(path) and os.unlink(path))
    return _TMP[0]


def cut_source(src: str, prefix: bytes):
    """What a dropped connection / crashed producer looks like to the parser, per source type (end-of-file after the cut).
    The doubles raise sources.EOFSpin after 2000 reads answered with end-of-file: a reader that keeps polling a dead
    source is a hang (decided on logical steps, not on wall-clock time)."""
    if src == "bytesio":
        return io.BytesIO(prefix)
    if src == "raw-nonseekable":
        return sources.SpinGuardRaw(prefix, [1 << 20])
    if src == "raw-nonseekable-1":
        return sources.SpinGuardRaw(prefix, [1])
    if src == "buffered-nonseekable":
        return io.BufferedReader(sources.SpinGuardRaw(prefix, [7, 1 << 20]))
    if src == "file-on-disk":
        # what a crashed producer leaves behind: a real file (fstat, seek and all) that simply ends after the cut
        path = _tmpfile()
        with open(path, "wb") as f:
            f.write(prefix)
        return open(path, "rb")
    if src == "bytesio-after-preamble":
        # the cut stream sits behind a container preamble in a seekable object the caller has already positioned
        pre = b"\x0a\x03abc-container-preamble\x00"
        f = io.BytesIO(pre + prefix)
        f.seek(len(pre))
        return f
    if src == "file-after-preamble":
        pre = b"\x00\x00\x0acontainer"
        path = _tmpfile()
        with open(path, "wb") as f:
            f.write(pre + prefix)
        f = open(path, "rb")
        f.seek(len(pre))
        return f
    if src == "buffered-nonseekable-dribble":
        return io.BufferedReader(sources.SpinGuardRaw(prefix, [2, 5]))
    raise ValueError(src)


def collect_alongside(integ: str, inp, other: bytes):
    """The cut feed read in lockstep with ANOTHER, healthy feed in the same process (a merge of two connections)."""
    from pyjelly.integrations.generic import parse as gparse
    from pyjelly.integrations.rdflib import parse as rparse
    mod = gparse if integ == "generic" else rparse
    conv = T.event_from_generic if integ == "generic" else T.event_from_rdflib
    out, exc = [], None
    b = mod.parse_jelly_flat(io.BytesIO(other))
    b_live = True
    try:
        a = mod.parse_jelly_flat(inp)
        while True:
            if b_live:
                try:
                    if next(b, None) is None:
                        b_live = False
                except Exception:  # noqa: BLE001 - the OTHER feed's own outcome (e.g. RDF-star read through rdflib) is not judged
                    b_live = False
            x = next(a, None)
            if x is None:
                break
            out.append(conv(x))
    except Exception as e:  # noqa: BLE001
        exc = e
    return out, exc


def judge_cut(integ: str, entry: str, data: bytes, k: int, S: list, complete_before: int, src: str = "bytesio",
              other: bytes | None = None):
    """-> witness or None"""
    if entry == "flat-alongside":
        got, exc = collect_alongside(integ, io.BytesIO(data[:k]), other)
        Y = T.norm_events(got)
    elif entry in ("flat", "flat-preread-header", "flat-strict"):
        inp = cut_source(src, data[:k])
        try:
            kw = {"logical_type_strict": True} if entry == "flat-strict" else {}
            got, exc = pj.run_flat_collect(integ, inp, preread=entry == "flat-preread-header", **kw)
        except sources.EOFSpin as spin:
            return {"clause": "spins-at-end-of-input", "source": src,
                    "summary": f"{integ}:{entry} cut at {k} supplied as {src}: {spin} (neither ends nor raises)"}
        finally:
            inp.close()
        Y = T.norm_events(got)
    else:
        Y = []
        exc = None
        try:
            for sts, nss, _m in _grouped_iter(integ, data[:k]):
                Y.extend(T.norm_events(sts))
        except Exception as e:  # noqa: BLE001
            exc = e
        S = [e for e in S if e[0] == "stmt"]
    if integ == "rdflib" and entry == "grouped":
        # stores: per-frame sets; compare as multiset prefix is not defined -> only completeness & membership
        if not set(Y) <= set(S):
            return {"clause": "not-in-original", "summary": f"{integ}:{entry} cut {k}: delivered a statement that is not in the original"}
        return None
    n = len(Y)
    if Y != S[:n]:
        i = next((j for j, (a, b) in enumerate(zip(Y, S)) if a != b), min(n, len(S)))
        return {"clause": "not-a-prefix", "summary": f"{integ}:{entry} cut at {k}: item {i} is {Y[i] if i < n else None}, "
                                                     f"original has {S[i] if i < len(S) else None}"}
    if n < complete_before:
        return {"clause": "lost-complete-frame", "summary": f"{integ}:{entry} cut at {k}: yielded {n} items but frames wholly "
                                                            f"delivered hold {complete_before}"
                                                            f" (then {'raised ' + type(exc).__name__ if exc else 'ended'})"}
    return None


def _grouped_iter(integ, data):
    return pj.iter_grouped(integ, data)


_OTHER: list = [None]


def run_stream(ctx, vs, integs, entries):
    data = vs["data"]
    other = _OTHER[0]
    _OTHER[0] = data
    if other is not None and "flat-alongside" not in entries:
        entries = list(entries) + ["flat-alongside"]
    frames = vs["frames"]
    res = refdec.decode(frames)
    S = T.norm_events(res.events)
    if res.violation is not None or S != T.norm_events(vs["events"]):
        ctx.inconc("reference decoder disagrees with the intended events of a generated stream")
        return
    if "flat-strict" in entries and int(res.options.get("logical_type", 0)) not in (1, 2):
        entries = [e for e in entries if e != "flat-strict"]      # strict flat parsing refuses other logical types outright
    # events completed by frames wholly inside the first k bytes
    ends = [fr["span"][1] for fr in frames]
    cum = []
    tot = 0
    for evs in res.per_frame:
        tot += len(evs)
        cum.append(tot)
    h = gen.case_hash(data)
    for k in range(0, len(data) + 1):
        complete = 0
        for e, c in zip(ends, cum):
            if e <= k:
                complete = c
        kind = classify_cut(k, frames, data)
        ctx.observe(f"cut:{kind}")
        for integ in integs:
            for entry in entries:
                cb = complete if entry.startswith("flat") else len([e for e in res.events[:complete] if e[0] == "stmt"])
                # the in-memory buffer always; one other source type per (stream, cut), rotating
                srcs = ["bytesio"] + ([SOURCES[1 + (k + len(data)) % (len(SOURCES) - 1)]] if entry == "flat" else [])
                if entry == "flat-alongside" and k % 3:
                    continue                              # every third cut is also read next to another feed
                for src in srcs:
                    w = judge_cut(integ, entry, data, k, S, cb, src, other)
                    ctx.observe("cuts-judged")
                    ctx.observe(f"cut-source:{src}")
                    if w is not None:
                        w.update({"bytes": data.hex(), "cut": k, "cut_kind": kind, "integration": integ, "entry": entry,
                                  "producer": vs["producer"], "mode": vs["mode"], "source": src,
                                  "other_bytes": other.hex() if entry == "flat-alongside" else None})
                        ctx.violation(w)
        nt = kind in ("inside-length-varint", "inside-entry-row", "between-entry-and-use", "on-frame-boundary")
        ctx.case((h, k), nt, sample={"stream_bytes": len(data), "frames": len(frames), "cut": k, "cut_kind": kind,
                                     "events_in_complete_frames": complete, "producer": vs["producer"]} if nt else None)


def child_case(ctx, rng, k):
    _one(ctx, rng)


def run_shard(ctx):
    if ctx.shard == 2 % ctx.nshards:
        # a slice again in an interpreter started with -O: reporting a truncated stream must not hinge on an assert
        from .. import childopt
        childopt.run(ctx, ID, 12 if ctx.tier == "quick" else 200, timeout=900)
    i = 0
    while not ctx.out_of_time():
        _one(ctx, ctx.rng(i))
        i += 1


def _one(ctx, rng):
    if True:
        mode = "rdf11" if rng.random() < .5 else "generic"
        vs = workloads.valid_stream(rng, mode=mode, delimited=True, max_len=rng.choice([6, 12, 25]), min_frames=2)
        if vs is None or len(vs["data"]) > (1500 if ctx.tier == "quick" else 4000):
            return
        integs = ["generic"] if mode == "generic" else ["generic", "rdflib"]
        entries = ["flat"] if ctx.tier == "quick" and rng.random() < .7 else ["flat", "grouped"]
        if rng.random() < .3:
            entries.append("flat-strict")               # parse_jelly_flat(inp, logical_type_strict=True)
        if rng.random() < .4:
            entries.append("flat-preread-header")       # get_options_and_frames first, then parse_jelly_flat(frames=, options=)
        ctx.observe("streams")
        ctx.observe(f"producer:{vs['producer']}")
        run_stream(ctx, vs, integs, entries)


def replay(w: dict):
    data = bytes.fromhex(w["bytes"])
    frames = wire.dec_stream(data, True)
    res = refdec.decode(frames)
    S = T.norm_events(res.events)
    k = w["cut"]
    complete = 0
    tot = 0
    for fr, evs in zip(frames, res.per_frame):
        tot += len(evs)
        if fr["span"][1] <= k:
            complete = tot
    cb = complete if w["entry"].startswith("flat") else len([e for e in res.events[:complete] if e[0] == "stmt"])
    return judge_cut(w["integration"], w["entry"], data, k, S, cb, w.get("source", "bytesio"),
                     bytes.fromhex(w["other_bytes"]) if w.get("other_bytes") else None)


def classify(w: dict):
    return None
