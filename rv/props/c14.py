"""C14 - namespace declarations round-trip and never affect statements."""
from __future__ import annotations

import io

import rdflib

from .. import gen, pj, refdec, wire, workloads
from .. import terms as T

ID = "C14"
LEVEL = "exploration"
RULE = ("ordered 1:1 binding lists (empty prefix, IRIs with and without '/' or '#', non-ASCII, namespaces that are also "
        "statement prefixes, more bindings than table slots) x statement sequences x generic sink and rdflib Graph/Dataset x "
        "TRIPLES/QUADS/GRAPHS x small tables; one case in five writes 2-5 sinks with repeating bindings through ONE stream; one in seven writes an rdflib Dataset through a TRIPLES stream (logical GRAPHS / SUBJECT_GRAPHS / FLAT_TRIPLES). Oracle: the Prefix events of parse_jelly_flat (both integrations) == the source "
        "bindings (prefix, IRI string) in order; sink.namespaces after sink.parse likewise; re-serializing what was read "
        "reproduces the same declarations; statements with declarations on == statements with declarations off == input; "
        "with the option off the independent decoder sees no namespace row and version 1 (version 2 with it on). rdflib "
        "stores are checked in two tiers: (i) reader made the documented way (Graph()/Dataset()): namespaces() equals the "
        "source's; (ii) reader made with bind_namespaces='none': exactly the declared bindings, in order, and "
        "re-serialization writes exactly those; a Graph whose NamespaceManager is shared (it lives on another graph's store) declares "
        "what Graph.namespaces() lists. Non-trivial: the binding list causes >= 1 eviction or contains the empty "
        "prefix; distinct by hash of (config, bindings, statements).")
ASSUMPTIONS = [
    "binding sets avoid rdflib's default prefixes/namespaces and are 1:1 for rdflib stores (so rdflib's own bind() never has to rename); generic sinks also get two prefixes for one namespace",
]
ANCHORS = ["pyjelly/serialize/encode.py", "pyjelly/serialize/streams.py", "pyjelly/parse/decode.py",
           "pyjelly/integrations/generic/serialize.py", "pyjelly/integrations/generic/parse.py",
           "pyjelly/integrations/generic/generic_sink.py", "pyjelly/integrations/rdflib/serialize.py",
           "pyjelly/integrations/rdflib/parse.py", "pyjelly/options.py"]
MARKERS = {
    "generic-ns-written": ("pyjelly/integrations/generic/serialize.py", r"stream\.namespace_declaration\(name=prefix"),
    "rdflib-ns-written": ("pyjelly/integrations/rdflib/serialize.py", r"stream\.namespace_declaration\(name=prefix"),
    "ns-decoded": ("pyjelly/parse/decode.py", r"def decode_namespace_declaration"),
}
REQUIRED_OBSERVED = ["generic-cases", "rdflib-cases", "prefix-events-compared", "reserialize-checks"]
MANIFEST = {
    "text": "Ordered-sequence oracle on the Prefix events delivered by the real parsers for generated binding lists, through "
            "both integrations and all three physical types, plus invariance of the statements under the option and a "
            "re-serialization fixpoint check; the independent decoder confirms presence/absence of namespace rows and the "
            "declared version.",
    "note": "rdflib's namespace manager is observed through namespaces() only; binding lists are restricted as stated in "
            "the assumptions so that rdflib's own rewriting stays out of the verdict.",
    "technique": "runtime monitoring: ordered event-sequence oracle on namespace declarations + metamorphic on/off comparison",
}


def plan(tier: str) -> dict:
    return {"shards": 4, "budget_s": 35} if tier == "quick" else {"shards": 16, "budget_s": 300}


def make_case(rng, integ: str):
    mode = "generic" if integ == "generic" and rng.random() < .5 else "rdf11"
    phys = rng.choice([1, 2, 3])
    arity = 3 if phys == 1 else 4
    v = gen.Vocab(rng, mode)
    stmts = gen.statements(rng, rng.randint(0 if integ == "generic" else 1, 15), arity, mode, vocab=v)
    if integ == "rdflib":
        seen, out = set(), []
        for s in stmts:
            if T.norm_stmt(s) not in seen:
                seen.add(T.norm_stmt(s))
                out.append(s)
        stmts = out
    ns = workloads.bindings(rng, v.ns if rng.random() < .6 else None, k=rng.randint(1, 8), odd_labels=integ == "generic",
                           shared_iri=integ == "generic")
    pe = rng.random() < .85
    np_, nn, nd = gen.need_of(stmts, phys, pe, [("ns", a, b) for a, b in ns])
    small = rng.random() < .6
    preset = (max(8, nn) + (0 if small else 100), (max(1, np_) + (rng.choice([0, 0, 1]) if small else 20)) if pe else 0,
              max(nd, 1) + rng.choice([0, 3]))
    entry = {"generic": rng.choice(["stream_frames_sink", "grouped_to_file"] if phys != 3 else ["stream_frames_sink"]),
             "rdflib": rng.choice(["graph_serialize", "stream_frames_store", "grouped_to_file"] if phys != 3
                                  else ["graph_serialize", "stream_frames_store"])}[integ]
    cfg = {"integration": integ, "physical": phys, "entry": entry, "frame_size": rng.choice([1, 3, 17, 250]),
           "preset": preset, "delimited": True if entry == "grouped_to_file" else rng.random() < .85,
           "logical": pj.FLAT_LOGICAL[phys], "generalized": mode == "generic", "rdf_star": mode == "generic",
           "ns": True, "stream_name": "", "params_build": rng.choice(["direct", "direct", "version1", "replace"])}
    return cfg, stmts, ns, mode


def prefix_events(evs):
    return [(e[1], e[2]) for e in evs if e[0] == "ns"]


def stmts_of(evs):
    return [T.norm_stmt(e[1]) for e in evs if e[0] == "stmt"]


def judge_generic(cfg, stmts, ns, mode):
    on = dict(cfg, ns=True)
    off = dict(cfg, ns=False)
    try:
        d_on = pj.serialize(on, stmts, ns)
        d_off = pj.serialize(off, stmts, ns)
    except Exception as e:  # noqa: BLE001
        return {"clause": "serializer-raised", "summary": f"{type(e).__name__}: {e}"}
    want_ns = [(p, i) for p, i in ns]
    want_st = [T.norm_stmt(s) for s in stmts]
    for integ in (["generic"] if mode == "generic" else ["generic", "rdflib"]):
        try:
            ev_on = pj.parse(integ, "flat", d_on)
            ev_off = pj.parse(integ, "flat", d_off)
        except Exception as e:  # noqa: BLE001
            return {"clause": "parser-raised", "summary": f"{integ}: {type(e).__name__}: {e}"}
        if prefix_events(ev_on) != want_ns:
            return _ns_diff("prefix-events-differ", f"{integ}:flat", prefix_events(ev_on), want_ns)
        if prefix_events(ev_off):
            return {"clause": "declaration-with-option-off", "summary": f"{integ}: Prefix events although the option is off"}
        if stmts_of(ev_on) != want_st or stmts_of(ev_off) != want_st:
            return {"clause": "statements-changed", "summary": f"{integ}: statements differ with declarations on/off"}
    w = _wire_checks(d_on, d_off, on["delimited"], bool(ns)) or \
        _other_readers(d_on, want_ns, ["generic"] if mode == "generic" or not rdflib_storable(ns) else ["generic", "rdflib"])
    if w:
        return w
    # sink.parse + re-serialization of what was read
    from pyjelly.integrations.generic.generic_sink import GenericStatementSink
    sink = GenericStatementSink()
    sink.parse(io.BytesIO(d_on))
    got = []
    for p, iri in sink.namespaces:
        t = T.from_generic(iri)
        got.append((p, t[1] if t[0] == "iri" else t))
    if got != want_ns:
        return _ns_diff("sink-namespaces-differ", "generic:sink.parse", got, want_ns)
    # the same on a sink that was USED before (it holds a binding and a statement of its own, or has parsed this file once
    # already): parse() loads the file - what the sink lists afterwards are the file's declarations
    from pyjelly.integrations.generic.generic_sink import IRI as _IRI, Triple as _Triple
    for how in ("bound-before", "parsed-twice"):
        used = GenericStatementSink()
        if how == "bound-before":
            used.bind("zz-earlier", _IRI("http://earlier.example/ns#"))
            used.add(_Triple(_IRI("http://earlier.example/s"), _IRI("http://earlier.example/p"), _IRI("http://earlier.example/o")))
        else:
            used.parse(io.BytesIO(d_on))
        used.parse(io.BytesIO(d_on))
        got2 = []
        for p, iri in used.namespaces:
            t = T.from_generic(iri)
            got2.append((p, t[1] if t[0] == "iri" else t))
        if got2 != want_ns:
            return _ns_diff("sink-namespaces-differ", f"generic:sink.parse on a sink that was {how}", got2, want_ns)
    from pyjelly.integrations.generic import serialize as gser
    out = io.BytesIO()
    stream = pj.make_stream(on)
    pj.write_frames(gser.stream_frames(stream, sink), out, on["delimited"])
    again = prefix_events(pj.parse("generic", "flat", out.getvalue()))
    if again != want_ns:
        return _ns_diff("reserialized-declarations-differ", "generic", again, want_ns)
    return None


def rdflib_storable(ns: list) -> bool:
    """Can an rdflib store hold this binding list as it is?  (rdflib refuses prefixes with white space and keeps one prefix
    per namespace - its rules, not pyjelly's.)"""
    return len({i for _p, i in ns}) == len(ns) and not any(any(c.isspace() for c in p) for p, _i in ns)


def _other_readers(d_on: bytes, want_ns: list, integs) -> dict | None:
    """The same declarations through the readers that hand out STORES: parse_jelly_grouped (bindings of the sinks, in
    order, concatenated) and parse_jelly_to_graph (bindings of the one sink).  rdflib Dataset sinks carry rdflib's own
    default bindings (see tier (ii) below): discounted."""
    for integ in integs:
        try:
            sinks = list(pj.iter_grouped(integ, d_on))
            if integ == "generic":
                tg = [(e[1], e[2]) for e in pj.parse("generic", "to_graph", d_on) if e[0] == "ns"]
            else:
                from pyjelly.integrations.rdflib import parse as rparse
                store = rparse.parse_jelly_to_graph(io.BytesIO(d_on), graph_factory=lambda: rdflib.Graph(bind_namespaces="none"),
                                                    dataset_factory=lambda: rdflib.Dataset(default_union=False))
                tg = _rd_ns(store)
        except Exception as e:  # noqa: BLE001
            return {"clause": "parser-raised", "summary": f"{integ} grouped/to_graph: {type(e).__name__}: {e}"}
        grouped = [(e[1], e[2]) for s in sinks for e in s[1]]
        if integ == "rdflib":
            grouped = [b for b in grouped if b not in _rdflib_defaults()]
            tg = [b for b in tg if b not in _rdflib_defaults()]
        if grouped != want_ns:
            return _ns_diff("grouped-sink-namespaces-differ", f"{integ}:parse_jelly_grouped (bindings of the sinks, concatenated)",
                            grouped, want_ns)
        if tg != want_ns:
            return _ns_diff("to-graph-namespaces-differ", f"{integ}:parse_jelly_to_graph", tg, want_ns)
    return None


def _wire_checks(d_on, d_off, delimited, has_ns):
    r_on = refdec.decode(wire.dec_stream(d_on, delimited))
    r_off = refdec.decode(wire.dec_stream(d_off, delimited))
    if r_on.violation or r_off.violation:
        return None      # validity: C03
    if r_off.counters["namespace-row"] or r_off.options["version"] != 1:
        return {"clause": "declaration-with-option-off",
                "summary": f"option off: {r_off.counters['namespace-row']} namespace rows, version {r_off.options['version']}"}
    if r_on.options["version"] != 2 or (has_ns and not r_on.counters["namespace-row"]):
        return {"clause": "declarations-not-written", "summary": f"option on: version {r_on.options['version']}, "
                                                                 f"{r_on.counters['namespace-row']} namespace rows"}
    return None


def _ns_diff(clause, where, got, want):
    i = next((k for k, (a, b) in enumerate(zip(got, want)) if a != b), min(len(got), len(want)))
    return {"clause": clause, "where": where, "got_at": T.to_json(got[i]) if i < len(got) else None,
            "want_at": T.to_json(want[i]) if i < len(want) else None, "n_got": len(got), "n_want": len(want),
            "extra": T.to_json([g for g in got if g not in want][:40]),
            "summary": f"{where}: {len(got)} bindings delivered, {len(want)} declared; first difference at {i}: "
                       f"{got[i] if i < len(got) else None} vs {want[i] if i < len(want) else None}"}


def _rd_store(stmts, ns, dataset, bind):
    return pj.rdflib_store_of(stmts, ns, dataset=dataset, bind_namespaces=bind)


def _rd_ns(store):
    return [(p, str(u)) for p, u in store.namespaces()]


def _new_reader(dataset: bool, bind: str | None):
    if bind is None:
        return rdflib.Dataset() if dataset else rdflib.Graph()
    if dataset:
        d = rdflib.Dataset(default_union=False)
        d.namespace_manager = rdflib.namespace.NamespaceManager(d, bind_namespaces=bind)
        return d
    return rdflib.Graph(bind_namespaces=bind)


def judge_rdflib(cfg, stmts, ns, mode):
    dataset = cfg["physical"] != 1
    on, off = dict(cfg, ns=True), dict(cfg, ns=False)
    try:
        d_on = pj.serialize(on, stmts, ns)
        d_off = pj.serialize(off, stmts, ns)
    except Exception as e:  # noqa: BLE001
        return {"clause": "serializer-raised", "summary": f"{type(e).__name__}: {e}"}
    want_ns = [(p, i) for p, i in ns]
    want_st = {T.norm_stmt(s) for s in stmts}
    for integ in ("rdflib", "generic"):
        try:
            ev_on = pj.parse(integ, "flat", d_on)
            ev_off = pj.parse(integ, "flat", d_off)
        except Exception as e:  # noqa: BLE001
            return {"clause": "parser-raised", "summary": f"{integ}: {type(e).__name__}: {e}"}
        if prefix_events(ev_on) != want_ns:
            return _ns_diff("prefix-events-differ", f"{integ}:flat", prefix_events(ev_on), want_ns)
        if prefix_events(ev_off):
            return {"clause": "declaration-with-option-off", "summary": f"{integ}: Prefix events although the option is off"}
        if set(stmts_of(ev_on)) != want_st or set(stmts_of(ev_off)) != want_st:
            return {"clause": "statements-changed", "summary": f"{integ}: statements differ with declarations on/off"}
    w = _wire_checks(d_on, d_off, on["delimited"], bool(ns)) or _other_readers(d_on, want_ns, ["rdflib", "generic"])
    if w:
        return w
    # tier (ii): reader without default bindings: exactly the declared ones, in order; re-serialization fixpoint
    reader = _new_reader(dataset, "none")
    reader.parse(data=d_on, format="jelly")
    got = _rd_ns(reader)
    if dataset:
        # rdflib's own Dataset.parse hands every parser (TriG and N-Quads too) an internal context Graph built with
        # the default bind_namespaces, which adds rdflib's 29 default prefixes to the store whatever the parser does.
        # That is rdflib's behaviour, not pyjelly's: those bindings are discounted for Dataset readers.
        got_f = [b for b in got if b not in _rdflib_defaults()]
        where = "rdflib:Dataset(bind_namespaces='none').parse (rdflib defaults discounted)"
    else:
        got_f = got
        where = "rdflib:Graph(bind_namespaces='none').parse"
    if got_f != want_ns:
        return _ns_diff("reader-namespaces-differ", where, got_f, want_ns)
    if dataset:
        # the same QUADS / GRAPHS stream read with a plain Graph.parse (rdflib injects nothing there): exactly the declared
        # bindings again
        greader = _new_reader(False, "none")
        greader.parse(data=d_on, format="jelly")
        if _rd_ns(greader) != want_ns:
            return _ns_diff("reader-namespaces-differ", "rdflib:Graph(bind_namespaces='none').parse of a QUADS/GRAPHS stream",
                            _rd_ns(greader), want_ns)
    out = io.BytesIO()
    reader.serialize(out, format="jelly", options=pj.make_options(on), stream=pj.make_stream(on))
    again = prefix_events(pj.parse("rdflib", "flat", out.getvalue()))
    if again != got:      # re-serializing what was read reproduces exactly the bindings the reader holds
        return _ns_diff("reserialized-declarations-differ", "rdflib", again, got)
    # a source whose namespace manager is SHARED: one NamespaceManager (living on a graph of its own) assigned to the graph that
    # is written - what Graph.namespaces() lists is what a caller has "bound on the graph"
    if not dataset:
        nm = rdflib.namespace.NamespaceManager(rdflib.Graph(bind_namespaces="none"), bind_namespaces="none")
        for p_, i_ in ns:
            nm.bind(p_, rdflib.URIRef(i_), override=True, replace=True)
        shared = rdflib.Graph(namespace_manager=nm) if len(ns) % 2 else rdflib.Graph(bind_namespaces="none")
        shared.namespace_manager = nm
        for st in stmts:
            shared.add(tuple(T.to_rdflib(t) for t in st))
        out = io.BytesIO()
        shared.serialize(out, format="jelly", options=pj.make_options(on), stream=pj.make_stream(on))
        got_sh = prefix_events(pj.parse("generic", "flat", out.getvalue()))
        if got_sh != _rd_ns(shared):
            return _ns_diff("prefix-events-differ", "rdflib Graph with a shared NamespaceManager (bindings live on another store)",
                            got_sh, _rd_ns(shared))
    # tier (i): the documented way - source and reader both carry rdflib's default bindings
    src = _rd_store(stmts, [], dataset, "rdflib") if not dataset else rdflib.Dataset()
    if dataset:
        for st in stmts:
            src.add(tuple(T.to_rdflib(t) for t in st))
    for p, i in ns:
        src.bind(p, rdflib.URIRef(i), override=True, replace=True)
    # ... and gives one of rdflib's default namespaces a prefix of its own (dc11: for the DC elements namespace):
    # a reader made the documented way already binds that namespace as dc:, and must end up like the source
    rebound = [("dc11", "http://purl.org/dc/elements/1.1/"), ("foaf1", "http://xmlns.com/foaf/0.1/"),
               ("w3owl", "http://www.w3.org/2002/07/owl#")][len(stmts) % 3]
    if len(ns) % 2 == 0 and not dataset:
        # Graph readers only: a Dataset creates its own namespace manager lazily AFTER parsing, and that manager
        # re-binds rdflib's default prefixes with override - rdflib's doing, whatever the parser delivered
        src.bind(rebound[0], rdflib.URIRef(rebound[1]), override=True, replace=True)
    out = io.BytesIO()
    src.serialize(out, format="jelly", options=pj.make_options(on), stream=pj.make_stream(on))
    r1 = _new_reader(dataset, None)
    r1.parse(data=out.getvalue(), format="jelly")
    if _rd_ns(r1) != _rd_ns(src):
        return _ns_diff("reader-namespaces-differ", "rdflib:Graph().parse (documented way)", _rd_ns(r1), _rd_ns(src))
    out2 = io.BytesIO()
    r1.serialize(out2, format="jelly", options=pj.make_options(on), stream=pj.make_stream(on))
    r2 = _new_reader(dataset, None)
    r2.parse(data=out2.getvalue(), format="jelly")
    if _rd_ns(r2) != _rd_ns(src):
        return _ns_diff("reserialized-declarations-differ", "rdflib (documented way, second trip)", _rd_ns(r2), _rd_ns(src))
    return None


def dataset_as_triples_case(rng):
    """An rdflib Dataset written through a TRIPLES stream (logical GRAPHS / SUBJECT_GRAPHS / FLAT_TRIPLES): the dataset's
    graphs are unpacked into triples (graph names are not part of a TRIPLES stream); its bindings are still declared."""
    v = gen.Vocab(rng, "rdf11")
    stmts = gen.statements(rng, rng.randint(1, 12), 4, "rdf11", vocab=v)
    ns = workloads.bindings(rng, v.ns if rng.random() < .6 else None, k=rng.randint(1, 6))
    triples = [s[:3] for s in stmts]
    np_, nn, nd = gen.need_of(triples, 1, True, [("ns", a, b) for a, b in ns])
    cfg = {"integration": "rdflib", "physical": 1, "store_dataset": True,
           "entry": rng.choice(["graph_serialize", "graph_serialize_options", "stream_frames_store", "grouped_to_file"]),
           "frame_size": rng.choice([1, 3, 250]), "preset": (max(8, nn) + rng.choice([0, 50]), max(1, np_) + rng.choice([0, 1, 10]), max(nd, 1) + 2),
           "delimited": True, "logical": rng.choice([3, 13, 1]), "generalized": False, "rdf_star": False, "ns": True,
           "stream_name": "", "params_build": "direct"}
    return cfg, stmts, ns


def judge_dataset_as_triples(cfg, stmts, ns):
    on, off = dict(cfg, ns=True), dict(cfg, ns=False)
    try:
        d_on = pj.serialize(on, stmts, ns)
        d_off = pj.serialize(off, stmts, ns)
    except Exception as e:  # noqa: BLE001
        return {"clause": "serializer-raised", "summary": f"{type(e).__name__}: {e}"}
    want_ns = [(p, i) for p, i in ns]
    want_st = {T.norm_stmt(s[:3]) for s in stmts}
    for integ in ("rdflib", "generic"):
        try:
            ev_on = pj.parse(integ, "flat", d_on)
            ev_off = pj.parse(integ, "flat", d_off)
        except Exception as e:  # noqa: BLE001
            return {"clause": "parser-raised", "summary": f"{integ}: {type(e).__name__}: {e}"}
        if prefix_events(ev_on) != want_ns:
            return _ns_diff("prefix-events-differ", f"{integ}:flat (Dataset through a TRIPLES stream, logical {cfg['logical']}, "
                                                    f"{cfg['entry']})", prefix_events(ev_on), want_ns)
        if prefix_events(ev_off):
            return {"clause": "declaration-with-option-off", "summary": f"{integ}: Prefix events although the option is off"}
        if set(stmts_of(ev_on)) != want_st or set(stmts_of(ev_off)) != want_st:
            return {"clause": "statements-changed", "summary": f"{integ}: triples of a Dataset written through a TRIPLES stream differ "
                                                               "with declarations on/off"}
    return _wire_checks(d_on, d_off, True, bool(ns))


def judge_multi(cfg, groups, nss):
    """Several sinks with (repeating) bindings through ONE stream: each sink's declarations are delivered again, in order."""
    on, off = dict(cfg, ns=True), dict(cfg, ns=False)
    try:
        d_on = pj.serialize_groups(on, groups, nss)
        d_off = pj.serialize_groups(off, groups, nss)
    except Exception as e:  # noqa: BLE001
        return {"clause": "serializer-raised", "summary": f"{type(e).__name__}: {e}"}
    want_ns = [(p, i) for n in nss for p, i in n]
    want_st = [T.norm_stmt(s) for g in groups for s in g]
    ordered = cfg["integration"] == "generic"
    for integ in ("generic", "rdflib"):
        try:
            ev_on = pj.parse(integ, "flat", d_on)
            ev_off = pj.parse(integ, "flat", d_off)
        except Exception as e:  # noqa: BLE001
            return {"clause": "parser-raised", "summary": f"{integ}: {type(e).__name__}: {e}"}
        if prefix_events(ev_on) != want_ns:
            return _ns_diff("prefix-events-differ", f"{integ}:flat (multi-sink stream)", prefix_events(ev_on), want_ns)
        if prefix_events(ev_off):
            return {"clause": "declaration-with-option-off", "summary": f"{integ}: Prefix events although the option is off"}
        a, b = stmts_of(ev_on), stmts_of(ev_off)
        if (a != want_st or b != want_st) if ordered else (set(a) != set(want_st) or set(b) != set(want_st)):
            return {"clause": "statements-changed", "summary": f"{integ}: statements of a {len(groups)}-sink stream differ with "
                                                               f"declarations on/off (on={len(a)}, off={len(b)}, written={len(want_st)})"}
    return _wire_checks(d_on, d_off, True, bool(want_ns))


def run_shard(ctx):
    i = 0
    while not ctx.out_of_time():
        rng = ctx.rng(i)
        i += 1
        if i % 5 == 0:
            cfg, groups, nss = workloads.multi_sink_case(rng, with_ns=True, empty_later_sink=True)
            if any(not g for g in groups):
                ctx.observe("multi-sink-cases-with-an-empty-later-sink")
            w = judge_multi(cfg, groups, nss)
            ctx.observe("multi-sink-cases")
            ctx.observe("prefix-events-compared", sum(len(n) for n in nss) * 2)
            if w is not None and not (w["clause"] == "serializer-raised" and not groups[0]):
                w.update({"cfg": cfg, "groups": T.to_json(groups), "nss": nss, "mode": "rdf11"})
                ctx.violation(w)
            ctx.case(("multi", sorted(cfg.items()), groups, nss), w is None,
                     sample={"kind": "multi-sink", "cfg": cfg, "bindings_per_sink": [len(n) for n in nss]})
            continue
        if i % 7 == 3:
            cfg, stmts, ns = dataset_as_triples_case(rng)
            w = judge_dataset_as_triples(cfg, stmts, ns)
            ctx.observe("dataset-through-triples-stream-cases")
            ctx.observe("prefix-events-compared", len(ns) * 2)
            if w is not None and not (w["clause"] == "serializer-raised" and w["summary"].startswith("JellyAssertionError")):
                # (a Dataset with options that name a flat TRIPLES type is refused as an incompatible pair: fine)
                w.update({"cfg": cfg, "stmts": T.to_json(stmts), "ns": ns, "mode": "rdf11", "kind": "dataset-as-triples"})
                ctx.violation(w)
            ctx.case(("ds-triples", sorted(cfg.items()), stmts, ns), w is None and len({s[3] for s in stmts}) >= 2,
                     sample={"kind": "dataset-through-triples-stream", "cfg": cfg, "bindings": ns, "graphs": len({s[3] for s in stmts})})
            continue
        integ = "generic" if rng.random() < .5 else "rdflib"
        cfg, stmts, ns, mode = make_case(rng, integ)
        judge = judge_generic if integ == "generic" else judge_rdflib
        w = judge(cfg, stmts, ns, mode)
        ctx.observe(f"{integ}-cases")
        ctx.observe("prefix-events-compared", len(ns) * 2)
        ctx.observe("reserialize-checks")
        ctx.observe(f"{integ}:physical{cfg['physical']}")
        if w is not None:
            if w["clause"] == "serializer-raised" and not stmts:
                ctx.observe("serializer-raised for an empty sink (its arity cannot be guessed: DESIGN 7)")
            else:
                # tables are >= need (declarations included) by construction: a refusal here is spurious - with
                # declarations on the serializer must write what it writes with them off
                if w["clause"] == "serializer-raised":
                    w["clause"] = "serializer-raised-with-declarations"
                w.update({"cfg": cfg, "stmts": T.to_json(stmts), "ns": ns, "mode": mode})
                ctx.violation(w)
            ctx.case((cfg, stmts, ns), False)
            continue
        evict = False
        try:
            data = pj.serialize(dict(cfg, ns=True), stmts, ns)
            c = refdec.decode(wire.dec_stream(data, cfg["delimited"])).counters
            evict = (c["name-eviction"] + c["prefix-eviction"]) > 0
        except Exception:  # noqa: BLE001
            pass
        if evict:
            ctx.observe("cases-with-eviction")
        if any(p == "" for p, _ in ns):
            ctx.observe("cases-with-empty-prefix")
        ctx.case((sorted(cfg.items()), stmts, ns), evict or any(p == "" for p, _ in ns),
                 sample={"cfg": cfg, "bindings": ns, "n_statements": len(stmts)})


def replay(w: dict):
    cfg = w["cfg"]
    cfg["preset"] = tuple(cfg["preset"])
    if "groups" in w:
        r = judge_multi(cfg, [list(g) for g in T.from_json(w["groups"])], [[tuple(b) for b in n] for n in w["nss"]])
        return r if r and r["clause"] != "serializer-raised" else None
    stmts = list(T.from_json(w["stmts"]))
    ns = [tuple(x) for x in w["ns"]]
    if w.get("kind") == "dataset-as-triples":
        r = judge_dataset_as_triples(cfg, stmts, ns)
        return r if r and r["clause"] != "serializer-raised" else None
    judge = judge_generic if cfg["integration"] == "generic" else judge_rdflib
    r = judge(cfg, stmts, ns, w["mode"])
    return r if r and not (r["clause"] == "serializer-raised" and not stmts) else None


RDFLIB_DEFAULT_PREFIXES = None


def _rdflib_defaults():
    global RDFLIB_DEFAULT_PREFIXES
    if RDFLIB_DEFAULT_PREFIXES is None:
        RDFLIB_DEFAULT_PREFIXES = {(p, str(u)) for p, u in rdflib.Graph().namespaces()}
    return RDFLIB_DEFAULT_PREFIXES


def classify(w: dict):
    c = w.get("clause")
    g, want = w.get("got_at"), w.get("want_at")
    if c in ("prefix-events-differ", "sink-namespaces-differ", "reserialized-declarations-differ") and g and want \
            and g[0] == want[0] and g[1] == "<" + str(want[1]) + ">":
        return "C14/generic-namespace-iri-mangled"
    if c == "reader-namespaces-differ" and "bind_namespaces='none'" in w.get("where", ""):
        extra = {tuple(x) for x in w.get("extra", [])}
        if extra and extra <= _rdflib_defaults() and w["n_got"] == w["n_want"] + len(extra):
            return "C14/rdflib-parser-binds-default-namespaces"
    return None
