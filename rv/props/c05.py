"""C05 - writer and reader lookup tables stay mirrored for all histories."""
from __future__ import annotations

import copy
import time
from collections import deque

from .. import env, gen, monitors

env.pin()

from pyjelly import jelly  # noqa: E402
from pyjelly.integrations.generic.parse import GenericTriplesAdapter  # noqa: E402
from pyjelly.integrations.generic.serialize import GenericSinkTermEncoder  # noqa: E402
from pyjelly.options import LookupPreset, StreamParameters, StreamTypes  # noqa: E402
from pyjelly.parse.decode import Decoder, ParserOptions  # noqa: E402
from pyjelly.parse.lookup import LookupDecoder  # noqa: E402
from pyjelly.serialize.lookup import LookupEncoder  # noqa: E402

ID = "C05"
LEVEL = "exploration"
RULE = ("(systematic) for each index rule (name: +1 zero form; prefix: 'same' zero form with the empty prefix; datatype: "
        "never zero) the REAL LookupEncoder and LookupDecoder are driven breadth-first through every next key (each "
        "resident key, one fresh key, the empty key) from every reachable joint state, canonicalised under key renaming; "
        "closure = no new canonical state. (walks) long adversarial random walks through TermEncoder.encode_iri / "
        "encode_literal -> Decoder for sizes 8..4000; (row walks) statement-shaped histories through TermEncoder.begin_row with "
        "tiny tables, where all entry rows of a row are ingested before its terms are resolved (a refused row is fine), and "
        "histories interrupted by a rejected statement on a real stream (catch-and-continue); (entry histories) many-name statement "
        "sequences through every public serializer entry point of both integrations with name tables of 8..15, judged by the "
        "independent decoder against the sizes the stream declares (15 % with the caller's ONE options object first used for a serialization "
        "that aborted part-way); (splitter histories) two streams built from one options object fed alternately through "
        "Stream.triple()/quad(), each file decoded on its own; (reader histories) reference-producer streams through both integrations' "
        "readers, two at a time with equal options, and through a minimal user-written Adapter (a refusal is fine, a delivered statement must be right). Oracles on every transition: ids in [0,size]; live entries <= size; "
        "string resolved by the real reader == string meant; same through an independent table; writer map and reader "
        "table mirror each other. Non-trivial = distinct canonical states in which the table is full (BFS) plus walk "
        "steps that evicted.")
ASSUMPTIONS = [
    "bounded exhaustive driving of the real objects for the closed sizes; sizes >= 8 are sampled by walks (not a proof about size 4096)",
    "key-renaming symmetry: all non-resident keys are interchangeable (the lookup code never inspects key contents except emptiness of a prefix)",
]
ANCHORS = ["pyjelly/serialize/lookup.py", "pyjelly/parse/lookup.py", "pyjelly/serialize/encode.py", "pyjelly/parse/decode.py"]
MARKERS = {
    "writer-eviction-branch": ("pyjelly/serialize/lookup.py", r"popitem\(last=False\)"),
    "writer-prefix-same-zero": ("pyjelly/serialize/lookup.py", r"if current_index == previous_index:"),
    "writer-empty-prefix-zero": ("pyjelly/serialize/lookup.py", r"if not value and previous_index == 0"),
    "reader-name-zero": ("pyjelly/parse/lookup.py", r"index or self\.last_reused_index \+ 1"),
}
REQUIRED_OBSERVED = ["bfs-transitions", "walk-steps", "row-walk-terms-resolved"]
MIN_NONTRIVIAL = 50
MANIFEST = {
    "text": "Closure of the reachable joint writer/reader state space on the real LookupEncoder/LookupDecoder objects "
            "for small table sizes (every next key from every canonical state, all three index rules), plus long "
            "adversarial walks through the real TermEncoder/Decoder for realistic sizes; five oracles per transition, one "
            "of them an independent table so that a symmetric writer+reader bug is still seen.",
    "note": "Exhaustive only for the sizes reported closed in the evidence; relies on key-renaming symmetry for the "
            "'alphabet of size+2' quantifier. Cloning uses copy.deepcopy of the real objects.",
    "technique": "runtime monitoring: exhaustive driving of the real objects over canonicalised reachable states + random walks, per-step invariant/mirror oracles",
}


def plan(tier: str) -> dict:
    return {"shards": 8, "budget_s": 55} if tier == "quick" else {"shards": 16, "budget_s": 900}


# ------------------------------------------------------------------ independent table (oracle d)

class RefTable:
    """Appendix A rules for one table, written independently of pyjelly."""

    def __init__(self, rule: str, size: int):
        self.rule, self.size = rule, size
        self.slots: dict[int, str] = {}
        self.le = 0       # last entry id
        self.lr = 0       # last resolved id (ln / lp)

    def clone(self):
        c = RefTable(self.rule, self.size)
        c.slots, c.le, c.lr = dict(self.slots), self.le, self.lr
        return c

    def entry(self, wire_id: int, value: str):
        i = wire_id or self.le + 1
        if not 1 <= i <= self.size:
            raise ValueError(f"entry id {i} out of [1,{self.size}]")
        self.slots[i] = value
        self.le = i

    def resolve(self, wire_id: int) -> str:
        if self.rule == "name":
            k = wire_id or self.lr + 1
        elif self.rule == "prefix":
            k = wire_id or self.lr
            if k == 0:
                return ""
        else:
            if wire_id == 0:
                raise ValueError("datatype id 0")
            k = wire_id
        if not 1 <= k <= self.size or k not in self.slots:
            raise ValueError(f"reference {k} unresolved")
        if self.rule != "datatype":
            self.lr = k
        return self.slots[k]

    def state(self):
        return (tuple(sorted(self.slots.items())), self.le, self.lr)


# ------------------------------------------------------------------ one step on the real objects

def clone(obj):
    """Copy a (small) pyjelly object graph: containers are copied, nested pyjelly objects recursed."""
    new = copy.copy(obj)
    for k, v in vars(new).items():
        if isinstance(v, (dict, list, deque, set)):
            setattr(new, k, copy.copy(v))
        elif hasattr(v, "__dict__") and type(v).__module__.startswith("pyjelly"):
            setattr(new, k, clone(v))
    return new


class Broken(Exception):
    def __init__(self, clause, detail):
        super().__init__(f"{clause}: {detail}")
        self.clause, self.detail = clause, detail


def step(rule: str, size: int, enc: LookupEncoder, dec: LookupDecoder, ref: RefTable, key: str):
    """Feed one key through exactly the call sequence TermEncoder/Decoder use."""
    try:
        e = enc.encode_entry_index(key)
    except Exception as ex:  # noqa: BLE001
        raise Broken("writer-raised", f"encode_entry_index({key!r}): {type(ex).__name__}: {ex}") from None
    if e is not None:
        if not (isinstance(e, int) and 0 <= e <= size):
            raise Broken("id-range", f"entry id {e!r} not in [0,{size}]")
        try:
            dec.assign_entry(e, key)
        except Exception as ex:  # noqa: BLE001
            raise Broken("reader-raised", f"assign_entry({e},{key!r}): {type(ex).__name__}: {ex}") from None
        try:
            ref.entry(e, key)
        except ValueError as ex:
            raise Broken("independent-table", str(ex)) from None
    try:
        if rule == "name":
            t = enc.encode_name_term_index(key)
        elif rule == "prefix":
            t = enc.encode_prefix_term_index(key)
        else:
            t = enc.encode_datatype_term_index(key)
    except Exception as ex:  # noqa: BLE001
        raise Broken("writer-raised", f"encode_{rule}_term_index({key!r}): {type(ex).__name__}: {ex}") from None
    if not (isinstance(t, int) and 0 <= t <= size):
        raise Broken("id-range", f"{rule} id {t!r} not in [0,{size}]")
    if rule == "datatype" and t == 0:
        raise Broken("id-range", "datatype id 0 on the wire")
    try:
        if rule == "name":
            got = dec.decode_name_term_index(t)
        elif rule == "prefix":
            got = dec.decode_prefix_term_index(t)
        else:
            got = dec.decode_datatype_term_index(t)
    except Exception as ex:  # noqa: BLE001
        raise Broken("reader-raised", f"decode_{rule}_term_index({t}): {type(ex).__name__}: {ex}") from None
    if got != key:
        raise Broken("resolved-differs", f"wire id {t} (entry {e}) resolved to {got!r}, writer meant {key!r}")
    try:
        r = ref.resolve(t)
    except ValueError as ex:
        raise Broken("independent-table", f"wire id {t}: {ex}") from None
    if r != key:
        raise Broken("independent-table", f"wire id {t} resolves to {r!r} by the spec rules, writer meant {key!r}")
    data = enc.lookup.data
    if len(data) > size:
        raise Broken("live-entries", f"writer holds {len(data)} > {size}")
    table = reader_table(dec, size)
    live = [v for v in table if v is not None]
    if len(live) > size:
        raise Broken("live-entries", f"reader holds {len(live)} live strings for size {size}")
    for k, i in data.items():
        if not 1 <= i <= size or table[i - 1] != k:
            raise Broken("mirror", f"writer {k!r}->{i} but reader slot holds {table[i - 1] if 1 <= i <= size else None!r}")
    if len(live) != len(data):
        raise Broken("mirror", f"reader has {len(live)} live strings, writer {len(data)} keys")
    return e, t, table


def reader_table(dec, size: int) -> tuple:
    """What every slot 1..size resolves to (None if unfilled), asked through the reader's own at() on a clone,
    so that the harness does not depend on how the reader stores its entries."""
    probe = clone(dec)
    out = []
    for i in range(1, size + 1):
        try:
            out.append(probe.at(i))
        except Exception:  # noqa: BLE001 - unfilled / out of range
            out.append(None)
    return tuple(out)


def canonical(rule, enc, dec, ref, table=None):
    order = list(enc.lookup.data.items())
    ren = {}
    for pos, (k, _i) in enumerate(order):
        ren[k] = "E" if (rule == "prefix" and k == "") else pos
    w = tuple((ren[k], i) for k, i in order)
    r = tuple(None if v is None else ren.get(v, "stale") for v in (table if table is not None else reader_table(dec, ref.size)))
    rs = tuple((s, ren.get(v, "stale")) for s, v in sorted(ref.slots.items()))
    return (w, len(enc.lookup.data) >= ref.size, enc.last_assigned_index, enc.last_reused_index, r,
            dec.last_assigned_index, dec.last_reused_index, rs, ref.le, ref.lr)


def bfs(ctx, rule: str, size: int, max_states: int | None, deadline: float):
    enc = LookupEncoder(lookup_size=size)
    dec = LookupDecoder(lookup_size=size)
    ref = RefTable(rule, size)
    seen = {canonical(rule, enc, dec, ref)}
    frontier = deque([(enc, dec, ref, 0, ())])
    fresh = 0
    transitions = 0
    full_states = 0
    max_depth_new = 0
    closed = True
    while frontier:
        if time.monotonic() > deadline or (max_states and len(seen) > max_states):
            closed = False
            break
        enc, dec, ref, depth, hist = frontier.popleft()
        keys = list(enc.lookup.data.keys())
        fresh += 1
        keys.append(f"f{fresh}")
        if rule == "prefix" and "" not in enc.lookup.data:
            keys.append("")
        for key in keys:
            e2, d2, r2 = clone(enc), clone(dec), ref.clone()
            transitions += 1
            h2 = hist + (key,) if len(hist) < 40 else hist
            try:
                _e, _t, table = step(rule, size, e2, d2, r2, key)
            except Broken as b:
                ctx.violation({"clause": b.clause, "rule": rule, "size": size, "history": list(hist) + [key],
                               "summary": f"{rule} table size {size} after history {list(hist) + [key]}: {b}"})
                continue
            broken = monitors.take_broken()
            if broken:
                ctx.violation({"clause": "contract", "rule": rule, "size": size, "history": list(hist) + [key],
                               "summary": f"{rule} size {size}: {broken[0]}"})
                continue
            c = canonical(rule, e2, d2, r2, table)
            if c not in seen:
                seen.add(c)
                frontier.append((e2, d2, r2, depth + 1, h2))
                max_depth_new = max(max_depth_new, depth + 1)
                if len(e2.lookup.data) >= size:
                    full_states += 1
                    ctx.case(("bfs", rule, size, c), True,
                             sample={"kind": "bfs-state", "rule": rule, "size": size, "history": list(h2)[-12:],
                                     "writer_lru_order": [[k, i] for k, i in e2.lookup.data.items()],
                                     "reader_slots": list(table)})
                else:
                    ctx.case(("bfs", rule, size, c), False)
    ctx.observe("bfs-transitions", transitions)
    ctx.observe("bfs-states", len(seen))
    ctx.extra.setdefault("bfs", []).append({
        "rule": rule, "size": size, "closed": closed, "states": len(seen), "transitions": transitions,
        "states_with_full_table": full_states, "longest_history_to_a_new_state": max_depth_new})
    return closed


# ------------------------------------------------------------------ walks through TermEncoder / Decoder

def walk(ctx, rng, sizes: tuple[int, int, int], steps: int, deadline: float):
    n, p, d = sizes
    preset = LookupPreset(max_names=n, max_prefixes=p, max_datatypes=d)
    enc = GenericSinkTermEncoder(lookup_preset=preset)
    popts = ParserOptions(stream_types=StreamTypes(physical_type=1, logical_type=1), lookup_preset=preset,
                          params=StreamParameters())
    dec = Decoder(adapter=GenericTriplesAdapter(popts))
    refs = {"name": RefTable("name", n), "prefix": RefTable("prefix", p), "datatype": RefTable("datatype", d)}
    mode = rng.choice(["uniform", "zipf", "scan", "hot-cold", "pingpong"])
    v_names = rng.choice([max(1, n - 1), n, n + 1, n + 2, 2 * n])
    v_pref = rng.choice([1, max(1, p - 1), p, p + 1, p + 2, 2 * p + 1]) if p else 1
    v_dt = rng.choice([1, max(1, d - 1), d, d + 1, d + 2]) if d else 0
    names = [f"n{i}" for i in range(v_names)]
    prefixes = ([""] if rng.random() < .5 else []) + [f"http://p{i}/" for i in range(v_pref)]
    dts = [f"http://dt/{i}" for i in range(v_dt)]
    scan_i = 0
    evictions = 0
    hist = deque(maxlen=30)

    def pick(seq, i):
        if mode == "uniform":
            return rng.choice(seq)
        if mode == "zipf":
            return seq[min(len(seq) - 1, int(rng.paretovariate(1.2)) - 1)]
        if mode == "scan":
            return seq[i % len(seq)]
        if mode == "hot-cold":
            return seq[0] if rng.random() < .6 else rng.choice(seq)
        return seq[(i % 2) * (len(seq) - 1)] if rng.random() < .7 else rng.choice(seq)

    for s in range(steps):
        if s % 512 == 0 and time.monotonic() > deadline:
            break
        scan_i += 1
        ctx.observe("walk-steps")
        if dts and rng.random() < .25:
            dt = pick(dts, scan_i)
            msg = jelly.RdfLiteral()
            hist.append(("lit", dt))
            both = rng.random() < .15      # a literal object carrying a language tag AND a datatype (e.g. rdf:langString)
            try:
                rows = enc.encode_literal(lex="x", datatype=dt, literal=msg, **({"language": "de"} if both else {}))
                if both:
                    # whatever the term ends up as on the wire, the TABLES must still mirror: every entry the writer
                    # holds has been sent to the reader
                    for r in rows:
                        e = r.datatype
                        refs["datatype"].entry(e.id, e.value)
                        dec.decode_row(e)
                    table = reader_table(dec.datatypes, d)
                    for k, i in enc.datatypes.lookup.data.items():
                        if table[i - 1] != k:
                            raise Broken("mirror", f"after a literal with language tag and datatype: writer {k!r}->{i}, reader slot {table[i - 1]!r}")
                    ctx.observe("walk-literals-with-language-and-datatype")
                    continue
                for r in rows:
                    e = r.datatype
                    if not 0 <= e.id <= d:
                        raise Broken("id-range", f"datatype entry id {e.id} not in [0,{d}]")
                    refs["datatype"].entry(e.id, e.value)
                    dec.decode_row(e)
                    if len(enc.datatypes.lookup.data) >= d:
                        evictions += 1
                if not 1 <= msg.datatype <= d:
                    raise Broken("id-range", f"datatype id {msg.datatype} not in [1,{d}]")
                got = dec.decode_literal(msg)
                if got._datatype != dt or refs["datatype"].resolve(msg.datatype) != dt:
                    raise Broken("resolved-differs", f"datatype {got._datatype!r} / spec {refs['datatype'].slots.get(msg.datatype)!r} != {dt!r}")
            except Broken as b:
                _walk_violation(ctx, b, sizes, mode, hist)
                return
            except Exception as ex:  # noqa: BLE001
                _walk_violation(ctx, Broken("raised", f"{type(ex).__name__}: {ex}"), sizes, mode, hist)
                return
            continue
        iri = pick(prefixes, scan_i) + pick(names, scan_i * 7 + 3) if p else "whole:" + pick(names, scan_i)
        hist.append(("iri", iri))
        msg = jelly.RdfIri()
        try:
            rows = enc.encode_iri(iri, msg)
            for r in rows:
                which = r.WhichOneof("row")
                e = getattr(r, which)
                size = n if which == "name" else p
                if not 0 <= e.id <= size:
                    raise Broken("id-range", f"{which} entry id {e.id} not in [0,{size}]")
                refs[which].entry(e.id, e.value)
                dec.decode_row(e)
            if not 0 <= msg.name_id <= n or not 0 <= msg.prefix_id <= p:
                raise Broken("id-range", f"iri ids ({msg.prefix_id},{msg.name_id}) outside [0,{p}]x[0,{n}]")
            got = dec.decode_iri(msg)._iri
            spec = refs["prefix"].resolve(msg.prefix_id) + refs["name"].resolve(msg.name_id)
            if got != iri or spec != iri:
                raise Broken("resolved-differs", f"reader {got!r}, spec rules {spec!r}, writer meant {iri!r}")
            for tab, rd, size in ((enc.names, dec.names, n), (enc.prefixes, dec.prefixes, p)):
                if len(tab.lookup.data) > size:
                    raise Broken("live-entries", f"writer holds {len(tab.lookup.data)} > {size}")
                if size and len(tab.lookup.data) >= size:
                    evictions += 1
                if size and (s % 64 == 0 or (size <= 16 and s % 4 == 0)):
                    table = reader_table(rd, size)
                    for k, i in tab.lookup.data.items():
                        if table[i - 1] != k:
                            raise Broken("mirror", f"writer {k!r}->{i}, reader slot {table[i - 1]!r}")
        except Broken as b:
            _walk_violation(ctx, b, sizes, mode, hist)
            return
        except ValueError as ex:
            _walk_violation(ctx, Broken("independent-table", str(ex)), sizes, mode, hist)
            return
        except Exception as ex:  # noqa: BLE001
            _walk_violation(ctx, Broken("raised", f"{type(ex).__name__}: {ex}"), sizes, mode, hist)
            return
        broken = monitors.take_broken()
        if broken:
            _walk_violation(ctx, Broken("contract", str(broken[0])), sizes, mode, hist)
            return
    ctx.observe("walk-steps-with-full-table", evictions)
    ctx.case(("walk", sizes, mode, v_names, v_pref, v_dt, ctx.shard, rng.random()), evictions > 0,
             sample={"kind": "walk", "sizes": list(sizes), "mode": mode, "vocab": [v_names, v_pref, v_dt],
                     "last_keys": [list(h) for h in list(hist)[-6:]]})


def row_walk(ctx, rng, sizes: tuple[int, int, int], rows: int, deadline: float):
    """Statement-shaped histories: all entry rows of a row are ingested BEFORE its terms are resolved.

    Drives TermEncoder with begin_row() per row, exactly like Stream.triple/quad do. A row the encoder refuses
    (JellyConformanceError) is acceptable - the pair is then replaced, as a failed stream would be.
    """
    from pyjelly.errors import JellyConformanceError

    n, p, d = sizes
    preset = LookupPreset(max_names=n, max_prefixes=p, max_datatypes=d)

    def fresh():
        enc = GenericSinkTermEncoder(lookup_preset=preset)
        popts = ParserOptions(stream_types=StreamTypes(physical_type=1, logical_type=1), lookup_preset=preset,
                              params=StreamParameters())
        return enc, Decoder(adapter=GenericTriplesAdapter(popts))

    enc, dec = fresh()
    prefixes = [f"http://p{i}/" for i in range(max(2, p + 2))]
    names = [f"n{i}" for i in range(n + 3)]
    dts = [f"http://dt/{i}" for i in range(d + 2)] if d else []
    hist = deque(maxlen=12)
    refused = resolved = 0
    for r in range(rows):
        if r % 256 == 0 and time.monotonic() > deadline:
            break
        k = rng.choice([1, 2, 3, 3, 4, 6])
        terms = []
        for _ in range(k):
            if dts and rng.random() < .25:
                terms.append(("lit", rng.choice(dts)))
            else:
                terms.append(("iri", (rng.choice(prefixes) if p else "w:") + rng.choice(names[: rng.choice([3, len(names)])])))
        hist.append(terms)
        ctx.observe("row-walk-rows")
        enc.begin_row()
        entry_rows, msgs = [], []
        try:
            for kind, val in terms:
                if kind == "iri":
                    m = jelly.RdfIri()
                    entry_rows.extend(enc.encode_iri(val, m))
                else:
                    m = jelly.RdfLiteral()
                    entry_rows.extend(enc.encode_literal(lex="x", datatype=val, literal=m))
                msgs.append((kind, val, m))
        except JellyConformanceError:
            refused += 1
            enc, dec = fresh()          # a stream that refused a statement is not used any further
            continue
        except Exception as ex:  # noqa: BLE001
            _walk_violation(ctx, Broken("writer-raised", f"{type(ex).__name__}: {ex}"), sizes, "rows", hist)
            return
        try:
            for row in entry_rows:
                which = row.WhichOneof("row")
                e = getattr(row, which)
                size = {"name": n, "prefix": p, "datatype": d}[which]
                if not 0 <= e.id <= size:
                    raise Broken("id-range", f"{which} entry id {e.id} not in [0,{size}]")
                dec.decode_row(e)
            for kind, val, m in msgs:          # resolved only now: entries precede the row on the wire
                got = dec.decode_iri(m)._iri if kind == "iri" else dec.decode_literal(m)._datatype
                resolved += 1
                if got != val:
                    raise Broken("resolved-differs", f"row {terms}: {kind} resolved to {got!r}, writer meant {val!r}")
        except Broken as b:
            _walk_violation(ctx, b, sizes, "rows", hist)
            return
        except Exception as ex:  # noqa: BLE001
            _walk_violation(ctx, Broken("reader-raised", f"{type(ex).__name__}: {ex}"), sizes, "rows", hist)
            return
    ctx.observe("row-walk-terms-resolved", resolved)
    ctx.observe("row-walk-rows-refused", refused)
    ctx.case(("rows", sizes, ctx.shard, rng.random()), resolved > 0,
             sample={"kind": "row-walk", "sizes": list(sizes), "rows_refused": refused, "terms_resolved": resolved,
                     "last_rows": [list(map(list, h)) for h in list(hist)[-3:]]})


def interrupted_history(ctx, rng):
    """Histories interrupted by a rejected statement: the per-statement stream API with one unencodable term.

    Reuses C20's catch-and-continue driver; here only the lookup-mirror consequence is judged: whatever the stream
    goes on to write must resolve, by the independent decoder, to exactly the accepted statements."""
    from . import c20
    from .. import pj as _pj

    phys = rng.choice([1, 2])
    arity = 3 if phys == 1 else 4
    v = gen.Vocab(rng, "rdf11", n_ns=rng.randint(1, 2), n_local=rng.randint(3, 5), n_dt=1)
    stmts = gen.statements(rng, rng.randint(4, 9), arity, "rdf11", vocab=v, p_repeat=rng.choice([.2, .6]))
    stmts = [tuple(("lit", t[1], None, None) if t[0] == "lit" and t[3] else t for t in st) for st in stmts]
    cfg = {"physical": phys, "frame_size": rng.choice([1, 3, 250]), "preset": (rng.choice([8, 9, 12]), rng.choice([2, 3, 8]), 0),
           "logical": _pj.FLAT_LOGICAL[phys], "delimited": True, "generalized": True, "rdf_star": True}
    need = gen.need_of(stmts, phys, True)
    cfg["preset"] = (max(cfg["preset"][0], need[1]), max(cfg["preset"][1], need[0]), 0)
    pos = rng.randrange(len(stmts))
    fault = (rng.choice([1, 2] + ([3] if arity == 4 else [])), None, rng.choice(["unsupported-term", "tuple-too-short"]))
    if fault[2] == "tuple-too-short":
        fault = (arity - 1, None, "tuple-too-short")
    try:
        w, info = c20.judge("generic", cfg, stmts, pos, fault)
    except Exception as e:  # noqa: BLE001
        ctx.inconc(f"interrupted-history driver failed: {type(e).__name__}: {e}")
        return
    ctx.observe("interrupted-histories")
    if w is not None:
        w = {"clause": "interrupted-history:" + w["clause"], "kind": "walk", "sizes": list(cfg["preset"]), "mode": "interrupted",
             "summary": f"history interrupted by a rejected statement ({fault[2]} in slot {fault[0]} at {pos}), sizes {cfg['preset']}: "
                        + w["summary"]}
        ctx.violation(w)
    ctx.case(("interrupted", cfg["preset"], stmts, pos, fault), bool(info.get("rejected")),
             sample={"kind": "interrupted-history", "sizes": list(cfg["preset"]), "fault": list(fault), "position": pos,
                     "stream_refused_further_use": info.get("refused")})


def entry_history(ctx, rng):
    """Histories through the PUBLIC entry points: the table sizes the caller passes in the options are the sizes the
    stream declares, and the writer behind every entry point (guess_stream, for_rdflib, sink.serialize, ...) must mirror a
    reader that allocates exactly those sizes.  Many distinct names over small tables; judged by the independent decoder
    (every id within the declared size and resolving to the intended string) and by the input coming back."""
    from . import c03
    from .. import workloads as _w

    if rng.random() < .3:
        # several sinks through ONE stream with namespace declarations: declarations arrive mid-stream and move the
        # prefix/name cursors of writer and reader between statements
        cfg, groups, nss = _w.multi_sink_case(rng, with_ns=True)
        w, res = c03.check_groups(cfg, groups, nss)
        ctx.observe("entry-histories")
        ctx.observe(f"entry-history:{cfg['integration']}:multi-sink-with-declarations")
        if w is not None and w["clause"] != "serializer-raised":
            ctx.violation({"clause": "entry-history:" + w["clause"], "kind": "walk", "sizes": list(cfg["preset"]), "mode": "entry-multi-sink",
                           "cfg": cfg, "summary": f"{cfg['integration']}: {len(groups)} sinks with declarations through one stream, sizes "
                                                  f"{cfg['preset']}: " + w["summary"]})
        ctx.case(("entry-multi", sorted(cfg.items()), groups, nss), res is not None and len(groups) >= 2,
                 sample={"kind": "entry-history", "entry": f"{cfg['integration']}:multi-sink", "sizes": list(cfg["preset"]),
                         "sinks": len(groups), "bindings": [len(n) for n in nss]})
        return
    cfg, stmts, ns = _w.serializer_case(rng, max_len=60, p_ns=0.0)
    if cfg["entry"] != "sink_serialize":
        n, p, d = cfg["preset"]
        need = gen.need_of(stmts, cfg["physical"], p > 0)
        cfg["preset"] = (max(rng.choice([8, 9, 11, 13, 15]), need[1]), max(min(p, rng.choice([2, 3, 5])), need[0]) if p else 0, d)
    if stmts and cfg["entry"] != "sink_serialize" and rng.random() < .15:
        # the application's ONE options object was first used for a serialization that aborted part-way
        cfg["failed_attempt_first"] = rng.randint(1, len(stmts))
        ctx.observe("entry-history:retry-after-aborted-attempt-with-same-options")
    w, res = c03.check_stream(cfg, stmts, ns)
    ctx.observe("entry-histories")
    ctx.observe(f"entry-history:{cfg['integration']}:{cfg['entry']}")
    if w is not None and w["clause"] != "serializer-raised":
        ctx.violation({"clause": "entry-history:" + w["clause"], "kind": "walk", "sizes": list(cfg["preset"]), "mode": "entry",
                       "cfg": cfg, "summary": f"{cfg['integration']}:{cfg['entry']} sizes {cfg['preset']} rdf_star={cfg['rdf_star']}: "
                                              + w["summary"]})
    ev = 0
    if res is not None:
        c = res.counters
        ev = c["name-eviction"] + c["prefix-eviction"] + c["datatype-eviction"]
        if ev:
            ctx.observe("entry-histories-with-eviction")
    ctx.case(("entry", sorted(cfg.items()), stmts), ev > 0,
             sample={"kind": "entry-history", "entry": f"{cfg['integration']}:{cfg['entry']}", "sizes": list(cfg["preset"]), "evictions": ev})


def splitter_history(ctx, rng):
    """Two output streams built from ONE options object the application keeps, fed alternately through the per-statement
    API (a splitter that routes each statement to one of two files): every id that reaches a file must resolve, on a reader
    of THAT file, to the string its own writer meant - judged by the independent decoder on each file separately."""
    from .. import pj as _pj
    from .. import refdec as _refdec
    from .. import wire as _wire
    from .. import terms as T

    integ = rng.choice(["generic", "rdflib"])
    phys = rng.choice([1, 2])
    arity = 3 if phys == 1 else 4
    mode = "rdf11"
    va = gen.Vocab(rng, mode, n_ns=rng.randint(1, 3), n_local=rng.randint(3, 6), n_dt=2)
    vb = gen.Vocab(rng, mode, n_ns=rng.randint(1, 3), n_local=rng.randint(3, 6), n_dt=2)
    a = gen.statements(rng, rng.randint(3, 14), arity, mode, vocab=va)
    b = gen.statements(rng, rng.randint(3, 14), arity, mode, vocab=vb)
    need = [max(x, y) for x, y in zip(gen.need_of(a, phys, True), gen.need_of(b, phys, True))]
    cfg = {"integration": integ, "physical": phys, "frame_size": rng.choice([1, 2, 5, 250]),
           "preset": (max(rng.choice([8, 9, 12, 64]), need[1]), max(rng.choice([1, 2, 4, 16]), need[0]), max(rng.choice([1, 2, 8]), need[2])),
           "logical": _pj.FLAT_LOGICAL[phys], "delimited": True, "generalized": False, "rdf_star": False}
    options = _pj.make_options(cfg)
    conv = T.stmt_to_generic if integ == "generic" else T.stmt_to_rdflib
    try:
        streams = [_pj.make_stream(cfg, options), _pj.make_stream(cfg, options)]
        outs: list = [[], []]
        for st_ in streams:
            st_.enroll()
        queues = [list(a), list(b)]
        while queues[0] or queues[1]:
            k = rng.randrange(2)
            if not queues[k]:
                k = 1 - k
            st = queues[k].pop(0)
            fr = streams[k].triple(conv(st)) if phys == 1 else streams[k].quad(conv(st))
            if fr:
                outs[k].append(fr.SerializeToString(deterministic=True))
        for k in range(2):
            fr = streams[k].flow.to_stream_frame()
            if fr:
                outs[k].append(fr.SerializeToString(deterministic=True))
    except Exception as e:  # noqa: BLE001 - a refusal to share is not what is judged here
        ctx.observe(f"splitter-raised:{type(e).__name__}")
        ctx.case(("splitter", sorted(cfg.items()), a, b), False)
        return
    ctx.observe("splitter-histories")
    for k, want_st in enumerate((a, b)):
        data = b"".join(_wire.enc_varint(len(f)) + f for f in outs[k])
        problem = None
        try:
            res = _refdec.decode(_wire.dec_stream(data, True))
            if res.violation is not None:
                problem = f"file {k} is not a valid stream: {res.violation}"
            elif [T.norm_stmt(x) for x in res.statements] != [T.norm_stmt(x) for x in want_st]:
                problem = f"file {k} decodes to {len(res.statements)} statements, its writer was given {len(want_st)} (or other terms)"
        except Exception as e:  # noqa: BLE001
            problem = f"file {k} unreadable: {type(e).__name__}: {e}"
        if problem:
            ctx.violation({"clause": "entry-history:splitter", "kind": "walk", "sizes": list(cfg["preset"]), "mode": "entry-splitter",
                           "cfg": cfg, "summary": f"{integ}: two streams built from one SerializerOptions object, fed alternately through "
                                                  f"Stream.{'triple' if phys == 1 else 'quad'}(): {problem}"})
            break
    ctx.case(("splitter", sorted(cfg.items()), a, b), True,
             sample={"kind": "splitter-history", "integration": integ, "sizes": list(cfg["preset"]), "statements": [len(a), len(b)]})


def reader_history(ctx, rng):
    """Histories seen from the READER side: streams of an independent producer that repeats its (identical) options row
    in later frames - often as the first row of a frame - while its tables and delta state simply carry on, as the format
    says.  Both integrations' readers must keep their tables across those rows."""
    from . import c04
    from .. import refenc
    import dataclasses

    phys, events, options, policy, _delim = c04.make_case(rng, "rdf11", 25)
    policy = dataclasses.replace(policy, p_options_repeat=rng.choice([.3, .6]), frame_cut=rng.choice(["each", "fixed", "random"]),
                                 frame_size=rng.choice([1, 2, 3]), p_empty_frame=0.0)
    try:
        pr = refenc.produce(rng, events, options, policy, True)
    except (refenc.ProducerError, refenc.InternalProducerError):
        ctx.observe("reader-history-producer-declined")
        return
    frames = wire_frames(pr.data)
    later_options = sum(1 for f in frames[1:] if f["rows"] and f["rows"][0][0] == "options")
    ctx.observe("reader-histories")
    if later_options:
        ctx.observe("reader-histories-with-options-row-opening-a-later-frame")
    w = c04.check_parsers("rdf11", pr, entries=("flat", "grouped"))
    if w is not None:
        ctx.violation({"clause": "reader-history:" + w["clause"], "kind": "walk", "sizes": [options["max_name_table_size"],
                       options["max_prefix_table_size"], options["max_datatype_table_size"]], "mode": "reader",
                       "bytes": pr.data.hex(),
                       "summary": f"stream with {later_options} later frames opening with a repeated options row: " + w["summary"]})
    if w is None and phys in (1, 2):
        w2 = minimal_adapter_read(ctx, pr)
        if w2 is not None:
            ctx.violation({"clause": "reader-history:custom-adapter", "kind": "walk", "mode": "reader-custom-adapter",
                           "sizes": [options["max_name_table_size"], options["max_prefix_table_size"], options["max_datatype_table_size"]],
                           "bytes": pr.data.hex(), "summary": w2})
    if w is None:
        # a second stream with EXACTLY the same stream options but other content, read at the same time (two generators
        # advanced alternately): each reader's tables must mirror its own writer only
        import io as _io
        from pyjelly.integrations.generic import parse as gparse
        from .. import terms as T
        _p2, events2, _o2, policy2, _d2 = c04.make_case(rng, "rdf11", 25)
        try:
            pr2 = refenc.produce(rng, [e for e in events2 if e[0] == "stmt" and len(e[1]) == (3 if phys == 1 else 4)] or events[:1],
                                 options, dataclasses.replace(policy2, p_options_repeat=0.0), True)
        except (refenc.ProducerError, refenc.InternalProducerError):
            pr2 = None
        if pr2 is not None:
            its = [gparse.parse_jelly_flat(_io.BytesIO(pr.data)), gparse.parse_jelly_flat(_io.BytesIO(pr2.data))]
            got = [[], []]
            live = [True, True]
            err = None
            try:
                while any(live):
                    for k in (0, 1):
                        if live[k]:
                            x = next(its[k], None)
                            if x is None:
                                live[k] = False
                            else:
                                got[k].append(T.norm_event(T.event_from_generic(x)))
            except Exception as e:  # noqa: BLE001
                err = f"{type(e).__name__}: {e}"
            ctx.observe("reader-histories-in-lockstep-with-equal-options")
            want = [T.norm_events(pr.events), T.norm_events(pr2.events)]
            if err or got != want:
                ctx.violation({"clause": "reader-history:lockstep-differs", "kind": "walk", "mode": "reader-lockstep",
                               "sizes": [options["max_name_table_size"], options["max_prefix_table_size"], options["max_datatype_table_size"]],
                               "summary": "two streams with identical options read alternately (generic parse_jelly_flat): "
                                          + (err or "a reader resolved ids to strings of the other stream")})
    ctx.case(("reader", gen.case_hash(pr.data)), later_options > 0,
             sample={"kind": "reader-history", "frames": len(frames), "later_frames_opening_with_options": later_options})


def minimal_adapter_read(ctx, pr):
    """The same stream read through a USER-WRITTEN adapter that implements only the obligatory term methods plus triple() /
    quad() (the documented extension point; no namespace_declaration, no quoted triples): the reader may refuse rows it has no
    handler for, but every statement it does deliver must be the statement the writer meant at that position."""
    import io as _io
    from pyjelly.parse.decode import Adapter
    from pyjelly.parse.ioutils import get_options_and_frames
    from .. import terms as T

    class MinimalAdapter(Adapter):
        def iri(self, iri):
            return ("iri", str(iri))

        def bnode(self, bnode):
            return ("bnode", str(bnode))

        def default_graph(self):
            return ("default",)

        def literal(self, lex, language=None, datatype=None):
            return ("lit", lex, language or None, datatype or None)

        def triple(self, terms):
            return ("stmt", tuple(terms))

        def quad(self, terms):
            return ("stmt", tuple(terms))

    class SubjectsOnlyAdapter(MinimalAdapter):
        """takes the first term of every statement and leaves the rest of the iterable alone"""

        def triple(self, terms):
            return ("subject", next(iter(terms)))

        quad = triple

    want = [e for e in T.norm_events(pr.events) if e[0] == "stmt"]
    # (a) an adapter that does not consume all the terms it is handed: the reader's own cursors must move all the same
    subjects = []
    try:
        opts, frames = get_options_and_frames(_io.BytesIO(pr.data))
        dec = Decoder(adapter=SubjectsOnlyAdapter(opts))
        for fr in frames:
            for item in dec.iter_rows(fr):
                if isinstance(item, tuple) and item and item[0] == "subject":
                    subjects.append(T.norm_event(("stmt", (item[1],)))[1][0])
    except Exception as e:  # noqa: BLE001
        ctx.observe(f"custom-adapter-reader-refused:{type(e).__name__}")
    want_subjects = [e[1][0] for e in want]
    if subjects != want_subjects[:len(subjects)]:
        i = next((k for k, (a, b) in enumerate(zip(subjects, want_subjects)) if a != b), len(want_subjects))
        return (f"a reader built on a user-written Adapter that takes only the FIRST term of each statement delivered subject "
                f"{subjects[i] if i < len(subjects) else None} for statement {i}, the writer meant {want_subjects[i] if i < len(want_subjects) else 'nothing more'}")
    got = []
    try:
        opts, frames = get_options_and_frames(_io.BytesIO(pr.data))
        dec = Decoder(adapter=MinimalAdapter(opts))
        for fr in frames:
            for item in dec.iter_rows(fr):
                if isinstance(item, tuple) and item and item[0] == "stmt":
                    got.append(T.norm_event(item))
    except Exception as e:  # noqa: BLE001 - refusing a row it cannot handle is the adapter author's business
        ctx.observe(f"custom-adapter-reader-refused:{type(e).__name__}")
    ctx.observe("reader-histories-through-a-custom-minimal-adapter")
    if got != want[:len(got)]:
        i = next((k for k, (a, b) in enumerate(zip(got, want)) if a != b), len(want))
        return (f"a reader built on a minimal user-written Adapter delivered {got[i] if i < len(got) else None} as statement {i}, the "
                f"writer meant {want[i] if i < len(want) else 'nothing more'}")
    return None


def wire_frames(data: bytes):
    from .. import wire
    return wire.dec_stream(data, True)


def _walk_violation(ctx, b: Broken, sizes, mode, hist):
    ctx.violation({"clause": b.clause, "kind": "walk", "sizes": list(sizes), "mode": mode,
                   "history_tail": [list(h) for h in hist],
                   "summary": f"walk sizes={sizes} mode={mode}: {b}; last keys {list(hist)[-4:]}"})


# ------------------------------------------------------------------ driver

def run_shard(ctx):
    monitors.arm()
    rules = ["name", "prefix", "datatype"]
    max_size = 6 if ctx.tier == "quick" else 8
    jobs = [(r, s) for s in range(1, max_size + 1) for r in rules]
    # biggest jobs first so that they start at time 0 on their own shard
    cost = lambda j: (8 if j[0] == "prefix" else 1) * 7 ** j[1]  # noqa: E731
    jobs.sort(key=lambda j: -cost(j))
    load = [0] * ctx.nshards            # longest-processing-time-first assignment (deterministic)
    mine = []
    for j in jobs:
        k = load.index(min(load))
        load[k] += cost(j)
        if k == ctx.shard:
            mine.append(j)
    mine.sort(key=cost)                 # cheap closures first: a budget overrun only costs the biggest one
    bfs_deadline = ctx.t0 + (ctx.deadline - ctx.t0) * 0.75
    for rule, size in mine:
        bfs(ctx, rule, size, 1_500_000, bfs_deadline)
    # walks with whatever time is left (at least a few)
    i = 0
    walk_sizes = [(8, 8, 8), (9, 3, 2), (16, 4, 4), (8, 0, 1), (150, 16, 8), (4000, 150, 32), (10, 1, 1), (12, 2, 0)]
    while i < 4 or not ctx.out_of_time():
        rng = ctx.rng("walk", i)
        sizes = walk_sizes[(i + ctx.shard) % len(walk_sizes)]
        walk(ctx, rng, sizes, 20_000 if ctx.tier == "quick" else 200_000, max(ctx.deadline, time.monotonic() + 3))
        row_sizes = [(8, 1, 1), (8, 2, 2), (8, 3, 1), (9, 2, 0), (8, 0, 2), (12, 4, 3), (16, 3, 3)][(i + ctx.shard) % 7]
        for k in range(40):
            interrupted_history(ctx, ctx.rng("interrupted", i, k))
        for k in range(60):
            entry_history(ctx, ctx.rng("entry", i, k))
        for k in range(20):
            splitter_history(ctx, ctx.rng("splitter", i, k))
        for k in range(40):
            reader_history(ctx, ctx.rng("reader", i, k))
        row_walk(ctx, ctx.rng("rows", i), row_sizes, 3_000 if ctx.tier == "quick" else 30_000,
                 max(ctx.deadline, time.monotonic() + 2))
        i += 1


def replay(w: dict):
    monitors.arm()
    if w.get("kind") == "walk":
        # walks are re-run from their seed by the check itself; a replay re-drives the recorded tail
        return {"clause": w["clause"], "summary": "walk witnesses are replayed by re-running ./check C05 with the same VERIF_SEED"}
    rule, size = w["rule"], w["size"]
    enc, dec, ref = LookupEncoder(lookup_size=size), LookupDecoder(lookup_size=size), RefTable(rule, size)
    try:
        for k in w["history"]:
            step(rule, size, enc, dec, ref, k)
    except Broken as b:
        return {"clause": b.clause, "summary": str(b)}
    return None


def classify(w: dict):
    return None


def _bfs_table(merged):
    rows = []
    for ex in merged["extra"]:
        rows.extend(ex.get("bfs", []))
    return sorted(rows, key=lambda r: (r["rule"], r["size"]))


def EXHAUSTIVE(merged, tier):
    rows = _bfs_table(merged)
    return bool(rows) and all(r["closed"] for r in rows)


EVIDENCE_EXTRA = {
    "bfs_closure_per_rule_and_size": _bfs_table,
    "states": lambda m: sum(r["states"] for r in _bfs_table(m)),
    "transitions": lambda m: sum(r["transitions"] for r in _bfs_table(m)),
}


def finalize(merged, tier, seed):
    rows = _bfs_table(merged)
    want = 3 * (6 if tier == "quick" else 8)
    if len(rows) < want:
        merged["inconclusive"].append(f"only {len(rows)} of {want} (rule,size) closures were attempted")
    # closure is REQUIRED up to size 5 (quick) / 6 (thorough); larger sizes are attempted with the remaining budget and
    # reported as closed or not (a loaded machine must not turn a budget overrun into a broken check)
    small_open = [r for r in rows if not r["closed"] and r["size"] <= (5 if tier == "quick" else 6)]
    if small_open:
        merged["inconclusive"].append(f"closure not reached within budget for {[(r['rule'], r['size']) for r in small_open]}")
