"""C01 - generic API round trip is lossless and order-preserving."""
from __future__ import annotations

from .. import gen, monitors, pj, refdec, wire, workloads
from .. import terms as T

ID = "C01"
LEVEL = "exploration"
RULE = ("random statement sequences (all term kinds, generalised positions, nested quoted triples) x "
        "{TRIPLES,QUADS,GRAPHS} x frame sizes x presets >= need x delimited/non-delimited x generic "
        "serializer entry points (generator entry points also with the frames batched in a list before writing; one long stream per "
        "shard whose vocabulary exceeds the DEFAULT 4000/150/32 tables), read back with parse_jelly_flat, parse_jelly_to_graph and sink.parse; "
        "oracle: out == in as sequences (xsd:string == plain). Non-trivial: >= 2 statements and the written "
        "stream contains >= 1 eviction, repeated-term elision or zero-form id (counted by the reference "
        "decoder); distinct by hash of (config, statements).")
ASSUMPTIONS = [
    "zero-length inputs through flat_stream_to_file/frames are excluded: those entry points write no bytes at all for an empty iterator",
    "presets are drawn with every enabled table >= the distinct entries one row needs (C18 covers the rest)",
]
ANCHORS = ["pyjelly/serialize/encode.py", "pyjelly/serialize/lookup.py", "pyjelly/serialize/streams.py",
           "pyjelly/serialize/flows.py", "pyjelly/parse/decode.py", "pyjelly/parse/lookup.py",
           "pyjelly/parse/ioutils.py", "pyjelly/integrations/generic/serialize.py",
           "pyjelly/integrations/generic/parse.py", "pyjelly/integrations/generic/generic_sink.py"]
MARKERS = {
    "writer-eviction-branch": ("pyjelly/serialize/lookup.py", r"popitem\(last=False\)"),
    "writer-zero-entry-id": ("pyjelly/serialize/lookup.py", r"if index == previous_index \+ 1"),
    "reader-non-delimited-branch": ("pyjelly/parse/ioutils.py", r"frame = parse\(jelly\.RdfStreamFrame"),
    "quoted-triple-encode": ("pyjelly/serialize/encode.py", r"rows: list\[jelly\.RdfStreamRow\] = \[\]"),
}
REQUIRED_OBSERVED = ["contract-evaluations", "roundtrips-compared"]
MANIFEST = {
    "text": "Sequence-equality oracle over thousands of generated generic-API round trips per run (all three physical "
            "types, all term kinds, table sizes down to exactly what one row needs, delimited and single-frame output), "
            "with icontract invariants armed on the real lookup classes. Exploration: held on the executions observed.",
    "note": "Trusts the harness' neutral term conversion and rv.gen's need computation; the reference decoder is used "
            "only to classify cases as non-trivial. Inputs and configurations not generated are not covered.",
    "technique": "runtime monitoring: round-trip sequence oracle at the public API boundary + icontract class invariants",
}


def plan(tier: str) -> dict:
    return {"shards": 4, "budget_s": 30} if tier == "quick" else {"shards": 16, "budget_s": 400}


def serialize_after_failed_attempt(cfg: dict, stmts: list) -> bytes:
    """The caller keeps ONE SerializerOptions object: a first write with it aborts on an object that is no RDF term
    after k statements were taken (rows still pending); the corrected data is then written with the same options.
    Only the second write is judged."""
    from pyjelly.integrations.generic import serialize as gser

    opts = pj.make_options(cfg)
    k = min(cfg["failed_attempt_first"], len(stmts))
    natives = [T.stmt_to_generic(s) for s in stmts[:k]]
    bad = type(natives[-1])(*(list(natives[-1][:2]) + [object()] + list(natives[-1][3:])))
    pj.OPTIONS_OVERRIDE = opts
    try:
        try:
            for _fr in gser.flat_stream_to_frames(iter(natives + [bad]), options=opts):
                pass
        except Exception:  # noqa: BLE001 - the first attempt is meant to fail
            pass
        return pj.serialize(cfg, stmts)
    finally:
        pj.OPTIONS_OVERRIDE = None


def roundtrip(cfg: dict, stmts: list, readers=("flat", "to_graph", "sink_parse", "flat@offset")) -> dict | None:
    """Return a violation witness or None."""
    want = [T.norm_stmt(s) for s in stmts]
    try:
        if cfg.get("failed_attempt_first") and stmts and cfg["entry"] != "sink_serialize":
            data = serialize_after_failed_attempt(cfg, stmts)
        else:
            data = pj.serialize(cfg, stmts, [tuple(b) for b in cfg.get("bindings") or []])
    except Exception as e:  # noqa: BLE001
        return {"clause": "serializer-raised", "summary": f"{type(e).__name__}: {e}"}
    broken = monitors.take_broken()
    if broken:
        return {"clause": "contract", "summary": str(broken[0]), "contracts": broken}
    for reader in readers:
        try:
            if reader == "flat@offset":
                import io
                pre = b"\x0a\x00preamble" if cfg.get("delimited", True) else b"\x00\x01preamble"
                f = io.BytesIO(pre + data)
                f.seek(len(pre))                  # the caller consumed its own preamble first
                evs = pj.parse("generic", "flat", f)
            else:
                evs = pj.parse("generic", reader, data)
        except Exception as e:  # noqa: BLE001
            return {"clause": "parser-raised", "reader": reader, "summary": f"{reader}: {type(e).__name__}: {e}",
                    "bytes": data.hex()}
        got = [T.norm_stmt(e[1]) for e in evs if e[0] == "stmt"]
        other = [e for e in evs if e[0] != "stmt" and not cfg.get("ns")]       # (declarations themselves are C14's question)
        if got != want or other:
            i = next((k for k, (a, b) in enumerate(zip(got, want)) if a != b), min(len(got), len(want)))
            return {"clause": "roundtrip-differs", "reader": reader,
                    "summary": f"{reader}: len out={len(got)} in={len(want)}, first difference at {i}: "
                               f"out={got[i] if i < len(got) else None} in={want[i] if i < len(want) else None}",
                    "bytes": data.hex()}
    broken = monitors.take_broken()
    if broken:
        return {"clause": "contract", "summary": str(broken[0]), "contracts": broken}
    other = _OTHER[0]
    if other is not None and "flat" in readers:
        # the file read back WHILE another Jelly file (the previous case's bytes) is being read in the same process:
        # two parse_jelly_flat generators advanced alternately
        import io
        from pyjelly.integrations.generic import parse as gparse
        try:
            a, b = gparse.parse_jelly_flat(io.BytesIO(data)), gparse.parse_jelly_flat(io.BytesIO(other))
            got_a = []
            a_live = b_live = True
            while a_live or b_live:
                if a_live:
                    x = next(a, None)
                    if x is None:
                        a_live = False
                    else:
                        got_a.append(T.event_from_generic(x))
                if b_live and next(b, None) is None:
                    b_live = False
            got = [T.norm_stmt(e[1]) for e in got_a if e[0] == "stmt"]
        except Exception as e:  # noqa: BLE001
            return {"clause": "parser-raised", "reader": "flat-lockstep", "other_bytes": other.hex(), "bytes": data.hex(),
                    "summary": f"flat, in lockstep with another parse: {type(e).__name__}: {e}"}
        if got != want:
            i = next((k for k, (x, y) in enumerate(zip(got, want)) if x != y), min(len(got), len(want)))
            return {"clause": "roundtrip-differs", "reader": "flat-lockstep", "other_bytes": other.hex(), "bytes": data.hex(),
                    "summary": f"flat, read in lockstep with another Jelly file: len out={len(got)} in={len(want)}, first difference at {i}: "
                               f"out={got[i] if i < len(got) else None} in={want[i] if i < len(want) else None}"}
    return {"ok": True, "data": data}  # type: ignore[return-value]


_OTHER: list = [None]


def _check(cfg, stmts):
    r = roundtrip(cfg, stmts)
    return None if r.get("ok") else r


def long_case(ctx, rng):
    """One long stream per shard: vocabulary larger than the DEFAULT tables (4000 names / 150 prefixes / 32 datatypes)."""
    n = 4000 if ctx.tier == "quick" else 30000
    phys = rng.choice([1, 2, 3])
    nss = [f"http://ns{k}.example/p/" for k in range(220)]
    names = [f"l{k}" for k in range(5200)]
    dts = [f"http://ex.org/dt/{k}" for k in range(45)]

    def iri():
        return ("iri", rng.choice(nss[: rng.choice([3, 220])]) + rng.choice(names[: rng.choice([50, 5200])]))
    stmts = []
    g = iri()
    for k in range(n):
        o = iri() if rng.random() < .6 else ("lit", str(k % 97), None, rng.choice(dts)) if rng.random() < .7 else ("lit", "x", "en", None)
        st = [iri() if rng.random() < .5 or not stmts else stmts[-1][0], iri(), o]
        if phys != 1:
            if rng.random() < .02:
                g = iri()
            st.append(g)
        stmts.append(tuple(st))
    cfg = {"integration": "generic", "physical": phys, "entry": rng.choice(["flat_to_file", "stream_frames_gen"]),
           "frame_size": rng.choice([250, 1000]), "preset": rng.choice([(4000, 150, 32), (4000, 150, 32), (128, 16, 8)]),
           "delimited": True, "logical": pj.FLAT_LOGICAL[phys], "generalized": True, "rdf_star": True}
    r = roundtrip(cfg, stmts, readers=("flat",))
    ctx.observe("long-streams")
    ctx.observe("roundtrips-compared")
    if not r.get("ok"):
        r.update({"cfg": cfg, "stmts": T.to_json(stmts[:50]), "note": "long stream; witness truncated to 50 statements",
                  "case": [ctx.shard, "long"]})
        ctx.violation(r)
    ctx.case(("long", ctx.shard, n, phys), True, sample={"kind": "long-stream", "statements": n, "cfg": cfg})


def run_shard(ctx):
    monitors.arm()
    max_len = 60 if ctx.tier == "quick" else 400
    long_case(ctx, ctx.rng("long"))
    i = 0
    while not ctx.out_of_time():
        rng = ctx.rng(i)
        i += 1
        if i % 25 == 7:
            cfg, stmts, _t = workloads.boundary_frame_case(rng)
            cfg["integration"] = "generic"
            cfg["generalized"] = cfg["rdf_star"] = True
            ctx.observe("boundary-length-frames")
        else:
            cfg, stmts, _ = workloads.generic_case(rng, max_len=max_len if rng.random() < .2 else 60)
            if rng.random() < .15:
                # the SAME quoted triple stated again after another term stood in its slot (not elided), and moved between slots
                q = ("triple", ("iri", "http://ex.org/ns/qs"), ("iri", "http://ex.org/v#qp"), ("iri", "http://ex.org/ns/sub/qo"))
                g_ = [stmts[0][3]] if stmts and len(stmts[0]) == 4 else ([("default",)] if cfg["physical"] != 1 else [])
                extra = [(q, ("iri", "http://ex.org/v#p1"), ("lit", "o", None, None)),
                         (("iri", "http://ex.org/ns/x"), ("iri", "http://ex.org/v#p1"), ("lit", "o", None, None)),
                         (q, ("iri", "http://ex.org/v#p2"), ("iri", "http://ex.org/ns/y")),
                         (("iri", "http://ex.org/ns/x"), ("iri", "http://ex.org/v#p2"), q),
                         (("bnode", "b0"), ("iri", "http://ex.org/v#p2"), q)]
                at = rng.randint(0, len(stmts))
                stmts = stmts[:at] + [tuple(list(e) + g_) for e in extra] + stmts[at:]
                n_, p_, d_ = cfg["preset"]
                if cfg["entry"] != "sink_serialize":
                    need = gen.need_of(stmts, cfg["physical"], p_ > 0)
                    cfg["preset"] = (max(n_, need[1], 8), max(p_, need[0]) if p_ else 0, max(d_, need[2]) if need[2] else d_)
                ctx.observe("same-quoted-triple-restated")
            if rng.random() < .12 and stmts:
                cfg["failed_attempt_first"] = rng.randint(1, len(stmts))
                ctx.observe("retry-after-failed-attempt-with-same-options-object")
            elif cfg["entry"] in ("grouped_to_file", "stream_frames_sink") and rng.random() < .5:
                # the sink also carries namespace bindings and the stream declares them: the statements must come
                # back all the same (1-90 bindings against the case's frame size: declarations alone can fill frames)
                k = rng.choice([1, 1, 2, 6, 90])
                cfg["bindings"] = [(f"p{j}", f"http://ex.org/nsdecl/{j % 7}/{j}#") for j in range(k)]
                cfg["ns"] = True
                n, p, d = cfg["preset"]
                cfg["preset"] = (max(n, 8), max(p, 1) if p else 0, d)
                ctx.observe("sinks-with-declared-namespaces")
        r = roundtrip(cfg, stmts)
        if r.get("ok") and len(r["data"]) < 20000:
            if _OTHER[0] is not None:
                ctx.observe("read-back-in-lockstep-with-another-parse")
            _OTHER[0] = r["data"]
        ctx.observe("roundtrips-compared")
        ctx.observe(f"entry:{cfg['entry']}")
        ctx.observe(f"physical:{cfg['physical']}")
        ctx.observe("delimited" if cfg["delimited"] else "non-delimited")
        if not r.get("ok"):
            small = workloads.shrink_list(stmts, lambda s: _check(cfg, s) is not None) if not cfg.get("ns") else stmts
            w = _check(cfg, small) or r
            w.update({"cfg": cfg, "stmts": T.to_json(small), "case": [ctx.shard, i - 1]})
            ctx.violation(w)
            ctx.case((cfg, stmts), False)
            continue
        # what did the stream contain? (evidence only - the verdict above never looks at this)
        nontrivial = False
        try:
            res = refdec.decode(wire.dec_stream(r["data"], cfg["delimited"]))
            c = res.counters
            feats = (c["name-eviction"] + c["prefix-eviction"] + c["datatype-eviction"],
                     c["elision"], c["name-zero-id"] + c["prefix-zero-id"] + c["name-entry-zero-id"])
            nontrivial = len(stmts) >= 2 and any(feats)
            if feats[0]:
                ctx.observe("streams-with-eviction")
            if feats[1]:
                ctx.observe("streams-with-elision")
            if c["quoted-triple"]:
                ctx.observe("streams-with-quoted-triples")
            if len(res.rows_per_frame) > 1:
                ctx.observe("multi-frame-streams")
        except Exception:  # noqa: BLE001
            ctx.observe("refdec-failed-on-output (C03 decides)")
        ctx.case((sorted(cfg.items()), stmts), nontrivial,
                 sample={"cfg": cfg, "statements": T.to_json(stmts[:3]), "n_statements": len(stmts)})
    ctx.observe("contract-evaluations", sum(monitors.EVALS.values()))
    for k, v in monitors.EVALS.items():
        ctx.observe(f"contract:{k}", v)


def replay(w: dict):
    monitors.arm()
    cfg = w["cfg"]
    cfg["preset"] = tuple(cfg["preset"])
    stmts = list(T.from_json(w["stmts"]))
    _OTHER[0] = bytes.fromhex(w["other_bytes"]) if w.get("other_bytes") else None
    return _check(cfg, stmts)


def classify(w: dict):
    return None
