"""C13 - stream header fidelity and stream-type validation."""
from __future__ import annotations

import io
import itertools

from .. import gen, pj, refdec, refenc, wire
from .. import terms as T

from pyjelly import jelly  # noqa: E402
from pyjelly.integrations.generic import parse as gparse  # noqa: E402
from pyjelly.integrations.generic import serialize as gser  # noqa: E402
from pyjelly.integrations.rdflib import serialize as rser  # noqa: E402
from pyjelly.integrations.rdflib import parse as rparse  # noqa: E402
from pyjelly.options import LookupPreset, StreamParameters, StreamTypes  # noqa: E402
from pyjelly.parse.ioutils import get_options_and_frames  # noqa: E402
from pyjelly.serialize.streams import SerializerOptions  # noqa: E402

ID = "C13"
LEVEL = "exploration"
RULE = ("(1) header fidelity: stream class x logical type x presets (8..4096 / 0..4096) x StreamParameters (generalized, "
        "rdf_star, namespace declarations, Unicode stream names incl. empty, astral, 300 bytes) x delimited x entry (stream_frames over a "
        "stream object, store/sink entries, and - flat/unspecified logical types - flat_stream_to_frames / flat_stream_to_file given the caller's options): the options seen "
        "by get_options_and_frames and by the independent wire codec must equal what was asked (version 2 iff namespace "
        "declarations, else 1). (2) all 4x8 physical/logical pairs at construction (StreamTypes and stream classes) and on "
        "parse (hand-encoded headers): accepted iff the specification table held by the harness allows the pair. (3) name "
        "tables < 8 rejected on write and read, tables > 4096 and versions 3..5 rejected on read, and never written. (4) 8 "
        "logical types x {flat, grouped} parser x strict {T,F} x both integrations: strict flat accepts exactly the two flat "
        "types, strict grouped exactly the five grouped ones; with strict off the same rows parse identically under every "
        "compatible logical type. Non-trivial: configurations differing from the defaults in >= 2 fields; distinct by "
        "configuration.")
ASSUMPTIONS = [
    "a caller who leaves the logical type UNSPECIFIED is told either UNSPECIFIED or the stream class's default flat type; every other field must match exactly",
    "the specification's compatibility table: TRIPLES <-> {FLAT_TRIPLES, GRAPHS, SUBJECT_GRAPHS}; QUADS/GRAPHS <-> {FLAT_QUADS, DATASETS, NAMED_GRAPHS, TIMESTAMPED_NAMED_GRAPHS}; UNSPECIFIED logical type is compatible with everything",
    "checks run with assert statements active (no -O): pyjelly rejects newer versions through an assert",
]
ANCHORS = ["pyjelly/options.py", "pyjelly/serialize/encode.py", "pyjelly/serialize/streams.py", "pyjelly/parse/decode.py",
           "pyjelly/parse/ioutils.py", "pyjelly/parse/lookup.py"]
MARKERS = {
    "type-compat-check": ("pyjelly/options.py", r"if triples_physical_type != triples_logical_type"),
    "min-name-table": ("pyjelly/options.py", r"name lookup size must be at least 8"),
    "max-table-on-read": ("pyjelly/parse/lookup.py", r"lookup size cannot be larger than"),
    "strict-flat": ("pyjelly/integrations/generic/parse.py", r"expected FLAT logical type"),
    "strict-grouped": ("pyjelly/integrations/generic/parse.py", r"expected GROUPED logical type"),
}
REQUIRED_OBSERVED = ["headers-compared", "type-pairs-construction", "type-pairs-parse", "limits-checked", "strict-matrix-cells"]
MIN_NONTRIVIAL = 50
MANIFEST = {
    "text": "Enumerates the header configuration space and the finite acceptance tables (type pairs, limits, strictness "
            "matrix) against the real constructors, serializers and parsers; what the reader reports is compared field by "
            "field with what the writer was asked for, and acceptance/rejection with the specification tables held by the "
            "harness.",
    "note": "The acceptance tables are exhaustive; header fidelity is a sampled cross product (listed in the evidence).",
    "technique": "runtime monitoring: configuration enumeration with field-wise header comparison and acceptance-table oracles",
}

LOGICALS = [0, 1, 2, 3, 4, 13, 14, 114]
PHYSICALS = [0, 1, 2, 3]
TRIPLES_LOGICAL = {1, 3, 13}
FLAT = {1, 2}
GROUPED = {3, 4, 13, 14, 114}


def spec_compatible(phys: int, logical: int) -> bool:
    if phys == 0 or logical == 0:
        return True
    return (phys == 1) == (logical in TRIPLES_LOGICAL)


def plan(tier: str) -> dict:
    return {"shards": 4, "budget_s": 35} if tier == "quick" else {"shards": 8, "budget_s": 200}


STREAM_NAMES = ["", "s", "ström é", "😀🎉", "x" * 300, "名前", "a\nb\t", "\u0000nul"]


# ------------------------------------------------------------------ (1) header fidelity

def header_case(ctx, rng):
    phys = rng.choice([1, 2, 3])
    compat = [l for l in LOGICALS if spec_compatible(phys, l)]
    logical = rng.choice(compat)
    preset = (rng.choice([8, 9, 16, 100, 4000, 4096]), rng.choice([0, 1, 8, 150, 4096]), rng.choice([0, 1, 32, 4096]))
    if rng.random() < .15:
        # a writer configured beyond the format's maximum: it may refuse, but whatever header it writes must state the sizes
        # it really uses, and a reader must then reject that header
        k = rng.randrange(3)
        preset = tuple(rng.choice([4097, 5000, 100000]) if j == k else v for j, v in enumerate(preset))
    ns = rng.random() < .5
    delimited = rng.random() < .7
    params = dict(generalized=rng.random() < .5, rdf_star=rng.random() < .5, ns=ns,
                  stream_name=rng.choice(STREAM_NAMES))
    integ = rng.choice(["generic", "rdflib"])
    cfg = {"integration": integ, "physical": phys, "entry": "stream_frames_gen", "frame_size": 250, "preset": preset,
           "delimited": delimited, "logical": logical, "params_build": rng.choice(["direct", "direct", "version1", "replace", "positional"]), **params}
    tr = gen.rng_for("transport", sorted((k, repr(v)) for k, v in cfg.items())).random()
    if tr < .24:
        cfg["options_transport"] = ["copy", "deepcopy", "pickle"][int(tr / .08)]
        ctx.observe(f"options-transport:{cfg['options_transport']}")
    arity = 3 if phys == 1 else 4
    st = tuple([("iri", "http://e/s"), ("iri", "http://e/p"), ("bnode", "b")] + ([("default",)] if arity == 4 else []))
    if preset[1] == 0:
        pass
    stmts_in = [st]
    if rng.random() < .2:
        # a stream that carries no statement at all (an empty Graph / Dataset / sink): its options still have to reach the reader
        stmts_in = []
        cfg["entry"] = "stream_frames_sink" if integ == "generic" else rng.choice(["stream_frames_store", "graph_serialize"])
        ctx.observe("headers-of-streams-without-statements")
    if stmts_in and not ns and phys != 3 and (logical in FLAT or logical == 0) and rng.random() < .5:
        # the caller's options handed to the flat convenience entry points instead of a stream object
        cfg["entry"] = rng.choice(["flat_frames", "flat_to_file"] if delimited else ["flat_frames"])
    if stmts_in and integ == "rdflib" and not ns and rng.random() < .25:
        cfg["entry"] = "graph_serialize_stream_only"        # Graph/Dataset.serialize(format='jelly', stream=<stream>) and nothing else
    ctx.observe(f"header-entry:{cfg['entry']}")
    try:
        if ns:
            cfg["entry"] = "stream_frames_sink" if integ == "generic" else "stream_frames_store"
        data = pj.serialize(cfg, stmts_in, [("ex", "http://e/")] if ns else [])
    except Exception as e:  # noqa: BLE001
        if max(preset) > 4096:
            ctx.observe("writer-refused-table-over-4096")
        elif logical in FLAT or logical == 0:
            ctx.violation({"clause": "writer-raised", "cfg": cfg, "summary": f"{type(e).__name__}: {e}"})
        else:
            ctx.observe("writer-raised-for-grouped-logical-with-flat-entry")
        return
    ctx.observe("headers-compared")
    want = {"physical_type": phys, "max_name_table_size": preset[0], "max_prefix_table_size": preset[1],
            "max_datatype_table_size": preset[2], "stream_name": params["stream_name"],
            "generalized_statements": params["generalized"], "rdf_star": params["rdf_star"], "version": 2 if ns else 1}
    ok_logical = {logical} if logical != 0 else {0, pj.FLAT_LOGICAL[phys]}
    # independent view
    try:
        frames = wire.dec_stream(data, delimited)
        o = next(r[1] for f in frames for r in f["rows"] if r[0] == "options")
    except Exception as e:  # noqa: BLE001
        ctx.violation({"clause": "header-unreadable", "cfg": cfg, "summary": f"independent codec: {e}"})
        return
    diffs = {k: (o[k], v) for k, v in want.items() if o[k] != v}
    if o["logical_type"] not in ok_logical:
        diffs["logical_type"] = (o["logical_type"], sorted(ok_logical))
    # pyjelly's reader
    if max(preset) > 4096:
        ctx.observe("headers-with-table-over-4096")
        if diffs:
            ctx.violation({"clause": "header-differs", "cfg": cfg, "diffs": T.to_json(diffs),
                           "summary": f"writer configured with tables {preset}: header fields (seen, asked): {diffs}"})
        accepted = [e for e, r in parse_all(data) if r == "ok"]
        if accepted:
            ctx.violation({"clause": "limit-read", "limit": "table-over-4096-written-by-pyjelly", "cfg": cfg,
                           "summary": f"a stream written with tables {preset} is accepted by {accepted}"})
        ctx.case(("hdr", sorted((k, str(v)) for k, v in cfg.items())), True, sample={"part": "header>4096", "preset": list(preset)})
        return
    try:
        po, _fr = get_options_and_frames(io.BytesIO(data))
    except Exception as e:  # noqa: BLE001
        ctx.violation({"clause": "reader-raised", "cfg": cfg, "summary": f"get_options_and_frames: {type(e).__name__}: {e}"})
        return
    seen = {"physical_type": int(po.stream_types.physical_type), "max_name_table_size": po.lookup_preset.max_names,
            "max_prefix_table_size": po.lookup_preset.max_prefixes, "max_datatype_table_size": po.lookup_preset.max_datatypes,
            "stream_name": po.params.stream_name, "generalized_statements": po.params.generalized_statements,
            "rdf_star": po.params.rdf_star, "version": po.params.version}
    for k, v in want.items():
        if seen[k] != v:
            diffs["reader." + k] = (seen[k], v)
    if int(po.stream_types.logical_type) not in ok_logical:
        diffs["reader.logical_type"] = (int(po.stream_types.logical_type), sorted(ok_logical))
    if po.params.delimited != delimited:
        diffs["reader.delimited"] = (po.params.delimited, delimited)
    if po.params.namespace_declarations != ns:
        diffs["reader.namespace_declarations"] = (po.params.namespace_declarations, ns)
    if diffs:
        ctx.violation({"clause": "header-differs", "cfg": cfg, "diffs": T.to_json(diffs),
                       "summary": f"header fields (seen, asked): {diffs}"})
    defaults = {"preset": (4000, 150, 32), "generalized": False, "rdf_star": False, "ns": False, "stream_name": "",
                "delimited": True, "logical": 0}
    nd = sum(1 for k, v in defaults.items() if cfg[k] != v)
    ctx.case(("hdr", sorted((k, str(v)) for k, v in cfg.items())), nd >= 2,
             sample={"part": "header", "cfg": {k: (v if k != "stream_name" else v[:20]) for k, v in cfg.items()}})


# ------------------------------------------------------------------ (2) type pairs

def header_stream(phys: int, logical: int, version: int = 1, sizes=(8, 8, 8), body: bool = True, delimited=True,
                  more_frames: bool = False) -> bytes:
    o = {"stream_name": "", "physical_type": phys, "generalized_statements": False, "rdf_star": False,
         "max_name_table_size": sizes[0], "max_prefix_table_size": sizes[1], "max_datatype_table_size": sizes[2],
         "logical_type": logical, "version": version}
    rows = [("options", o)]
    if body:
        rows += [("prefix", {"id": 0, "value": "http://e/"}), ("name", {"id": 0, "value": "a"})] if sizes[1] else \
            [("name", {"id": 0, "value": "http://e/a"})]
        t = {"s": ("iri", 1 if sizes[1] else 0, 0), "p": ("iri", 0, 1), "o": ("bnode", "b")}
        if phys == 2:
            rows.append(("quad", {**t, "g": ("default",)}))
        elif phys == 3:
            rows += [("graph_start", {"g": ("default",)}), ("triple", t), ("graph_end", {})]
        else:
            rows.append(("triple", t))
    if more_frames and body and delimited:
        # ... followed by an empty frame, a frame with one more statement and a trailing empty frame
        t2 = {"s": ("iri", 0, 1), "p": ("iri", 0, 1), "o": ("bnode", "c")}
        if phys == 2:
            second = [("quad", {**t2, "g": ("default",)})]
        elif phys == 3:
            second = [("graph_start", {"g": ("default",)}), ("triple", t2), ("graph_end", {})]
        else:
            second = [("triple", t2)]
        return wire.enc_stream([{"rows": rows}, {"rows": []}, {"rows": second}, {"rows": []}], True)
    return wire.enc_stream([{"rows": rows}], delimited)


def parse_all(data: bytes, **kw):
    """-> list of (entry name, 'ok' | exception type name)"""
    out = []
    for integ, mod in (("generic", gparse), ("rdflib", rparse)):
        for entry in ("flat", "grouped"):
            try:
                if entry == "flat":
                    list(mod.parse_jelly_flat(io.BytesIO(data), **kw))
                else:
                    list(mod.parse_jelly_grouped(io.BytesIO(data), **kw))
                out.append((f"{integ}:{entry}", "ok"))
            except Exception as e:  # noqa: BLE001
                out.append((f"{integ}:{entry}", type(e).__name__))
    return out


def type_pairs(ctx):
    classes = {1: "TripleStream", 2: "QuadStream", 3: "GraphStream"}
    for phys, logical in itertools.product(PHYSICALS, LOGICALS):
        want_ok = spec_compatible(phys, logical)
        # construction: StreamTypes
        try:
            StreamTypes(physical_type=phys, logical_type=logical)
            got_ok = True
        except Exception:  # noqa: BLE001
            got_ok = False
        ctx.observe("type-pairs-construction")
        if got_ok != want_ok:
            ctx.violation({"clause": "type-pair-construction", "pair": [phys, logical],
                           "summary": f"StreamTypes({phys},{logical}) {'accepted' if got_ok else 'rejected'}; the "
                                      f"specification {'allows' if want_ok else 'forbids'} the pair"})
        if phys in classes:
            for integ in ("generic", "rdflib"):
                for delimited in (True, False):
                    cfg = {"integration": integ, "physical": phys, "logical": logical, "delimited": delimited,
                           "preset": (8, 8, 8)}
                    try:
                        s = pj.make_stream(cfg, pj.make_options(cfg))
                        got_ok = True
                        written = int(s.stream_types.logical_type)
                    except Exception:  # noqa: BLE001
                        got_ok = False
                        written = None
                    ctx.observe("type-pairs-construction")
                    if got_ok != want_ok:
                        ctx.violation({"clause": "type-pair-construction", "pair": [phys, logical], "cfg": cfg,
                                       "summary": f"{classes[phys]} with logical type {logical} (delimited={delimited}) "
                                                  f"{'accepted' if got_ok else 'rejected'}; specification "
                                                  f"{'allows' if want_ok else 'forbids'} it"})
                    elif got_ok and not spec_compatible(phys, written):
                        ctx.violation({"clause": "type-pair-written", "pair": [phys, written],
                                       "summary": f"{classes[phys]} would write the forbidden pair ({phys},{written})"})
        # parse
        if phys == 0:
            continue
        data = header_stream(phys, logical)
        res = parse_all(data)
        ctx.observe("type-pairs-parse")
        for entry, r in res:
            if (r == "ok") != want_ok:
                ctx.violation({"clause": "type-pair-parse", "pair": [phys, logical], "entry": entry, "bytes": data.hex(),
                               "summary": f"{entry}: header ({phys},{logical}) {'accepted' if r == 'ok' else 'rejected (' + r + ')'}; "
                                          f"specification {'allows' if want_ok else 'forbids'} the pair"})
        ctx.case(("pair", phys, logical), True, sample={"part": "type-pair", "physical": phys, "logical": logical,
                                                        "spec_allows": want_ok, "parse": res})


def late_params_case(ctx, rng):
    """The caller builds the stream first and sets the stream parameters afterwards (SerializerOptions is a mutable
    dataclass; the options row is written with the first statement): the reader is told the parameters the stream was
    WRITTEN with - its name, flags, version - just as the framing and the declarations follow them."""
    from pyjelly.options import StreamParameters
    integ = rng.choice(["generic", "rdflib"])
    phys = rng.choice([1, 2])
    cfg = {"integration": integ, "physical": phys, "logical": pj.FLAT_LOGICAL[phys], "delimited": True, "preset": (16, 8, 8),
           "frame_size": 250, "generalized": False, "rdf_star": False, "ns": False, "stream_name": ""}
    options = pj.make_options(cfg)
    stream = pj.make_stream(cfg, options)
    late = dict(stream_name=rng.choice(STREAM_NAMES[1:]), generalized_statements=rng.random() < .5, rdf_star=rng.random() < .5,
                namespace_declarations=rng.random() < .5, delimited=True)
    stream.options.params = StreamParameters(**late)
    st = tuple([("iri", "http://e/s"), ("iri", "http://e/p"), ("bnode", "b")] + ([("default",)] if phys == 2 else []))
    mod = gser if integ == "generic" else rser
    conv = T.stmt_to_generic if integ == "generic" else T.stmt_to_rdflib
    out = io.BytesIO()
    try:
        if late["namespace_declarations"]:
            # (declarations come from a sink / store, not from a bare statement generator)
            data_in = pj.generic_sink_of([st], [("ex", "http://e/")]) if integ == "generic" else \
                pj.rdflib_store_of([st], [("ex", "http://e/")], dataset=phys == 2)
        else:
            data_in = iter([conv(st)])
        pj.write_frames(mod.stream_frames(stream, data_in), out, True)
        o = next(r[1] for f in wire.dec_stream(out.getvalue(), True) for r in f["rows"] if r[0] == "options")
    except Exception as e:  # noqa: BLE001
        ctx.violation({"clause": "writer-raised", "cfg": cfg, "summary": f"parameters set after construction: {type(e).__name__}: {e}"})
        return
    ctx.observe("headers-compared")
    ctx.observe("headers-with-parameters-set-after-construction")
    want = {"stream_name": late["stream_name"], "generalized_statements": late["generalized_statements"], "rdf_star": late["rdf_star"],
            "version": 2 if late["namespace_declarations"] else 1}
    diffs = {k: (o[k], v) for k, v in want.items() if o[k] != v}
    if diffs:
        ctx.violation({"clause": "header-differs", "cfg": cfg, "diffs": T.to_json(diffs), "kind": "late-params",
                       "summary": f"stream parameters assigned after the stream was built, before the first write: header fields "
                                  f"(seen, in effect when writing): {diffs}"})
    ctx.case(("late-params", integ, phys, sorted((k, str(v)) for k, v in late.items())), True,
             sample={"part": "header", "kind": "parameters set after construction", "late": {k: str(v)[:20] for k, v in late.items()}})


def reused_options_case(ctx, rng):
    """ONE options object the application keeps (logical type left UNSPECIFIED) used for several streams of different kinds,
    one after the other: a Graph, then a Dataset (or the reverse), a triples generator, then a quads generator; optionally
    switched to non-delimited between uses.  Every header must state what THAT stream is - never what the object was used for before."""
    import dataclasses
    integ = rng.choice(["rdflib", "generic"])
    order = rng.choice([(3, 4), (4, 3), (3, 4, 3)])
    cfg = {"integration": integ, "physical": 1, "logical": 0, "delimited": True, "preset": (rng.choice([8, 16, 64]), 8, 8),
           "frame_size": 250, "generalized": False, "rdf_star": False, "ns": False, "stream_name": rng.choice(STREAM_NAMES)}
    options = pj.make_options(cfg)
    switch_at = rng.choice([None, None, 1])
    for k, arity in enumerate(order):
        if switch_at == k:
            options.params = dataclasses.replace(options.params, delimited=False)
        delimited = options.params.delimited
        st = tuple([("iri", "http://e/s"), ("iri", "http://e/p"), ("bnode", "b")] + ([("iri", "http://e/g")] if arity == 4 else []))
        how = rng.choice(["store", "flat"]) if delimited else "store"
        out = io.BytesIO()
        try:
            if integ == "rdflib" and how == "store":
                pj.rdflib_store_of([st], dataset=arity == 4).serialize(out, format="jelly", options=options)
            elif integ == "rdflib":
                rser.flat_stream_to_file(iter([T.stmt_to_rdflib(st)]), out, options=options)
            elif how == "store" and delimited:
                gser.grouped_stream_to_file(iter([pj.generic_sink_of([st])]), out, options=options)
            else:
                pj.write_frames(gser.flat_stream_to_frames(iter([T.stmt_to_generic(st)]), options=options), out, delimited)
            o = next(r[1] for f in wire.dec_stream(out.getvalue(), delimited) for r in f["rows"] if r[0] == "options")
        except Exception as e:  # noqa: BLE001
            ctx.violation({"clause": "writer-raised", "cfg": cfg, "kind": "reused-options",
                           "summary": f"{integ}: one options object (logical type unspecified) used for streams of arity {list(order)}: "
                                      f"use {k + 1} ({how}, delimited={delimited}) raised {type(e).__name__}: {e}"})
            return
        ctx.observe("headers-compared")
        ctx.observe("headers-of-streams-written-with-a-reused-options-object")
        want_phys = 1 if arity == 3 else 2
        ok_logical = {0, pj.FLAT_LOGICAL[want_phys]}
        diffs = {}
        if o["physical_type"] != want_phys:
            diffs["physical_type"] = (o["physical_type"], want_phys)
        if o["logical_type"] not in ok_logical:
            diffs["logical_type"] = (o["logical_type"], sorted(ok_logical))
        if o["stream_name"] != cfg["stream_name"] or o["max_name_table_size"] != cfg["preset"][0]:
            diffs["name/table"] = ((o["stream_name"], o["max_name_table_size"]), (cfg["stream_name"], cfg["preset"][0]))
        if diffs:
            ctx.violation({"clause": "header-differs", "cfg": cfg, "diffs": T.to_json(diffs), "kind": "reused-options",
                           "summary": f"{integ}: one options object (logical type unspecified) used for streams of arity {list(order)}: "
                                      f"header of use {k + 1} (seen, expected): {diffs}"})
            return
    ctx.case(("reused-options", integ, order, switch_at, cfg["stream_name"], cfg["preset"]), True,
             sample={"part": "header", "kind": "one options object for several streams", "arities": list(order)})


def flow_object_pairs(ctx):
    """The logical type requested through an explicit flow OBJECT (SerializerOptions.flow): the header states the flow's
    logical type, and a flow whose type the specification forbids for the stream class is refused."""
    from pyjelly.serialize import flows as F
    classes = {1: "TripleStream", 2: "QuadStream", 3: "GraphStream"}
    flows = [(F.FlatTriplesFrameFlow, {}), (F.FlatQuadsFrameFlow, {}), (F.GraphsFrameFlow, {}), (F.DatasetsFrameFlow, {}),
             (F.GraphsFrameFlow, {"logical_type": 13}), (F.DatasetsFrameFlow, {"logical_type": 114}),
             (F.DatasetsFrameFlow, {"logical_type": 14})]
    for phys in classes:
        for fcls, kw in flows:
            for opt_logical in (0, pj.FLAT_LOGICAL[phys]):
                for integ in ("generic", "rdflib"):
                    flow = fcls(**kw)
                    fl = int(flow.logical_type)
                    cfg = {"integration": integ, "physical": phys, "logical": opt_logical, "delimited": True, "preset": (8, 8, 8)}
                    want_ok = spec_compatible(phys, fl)
                    try:
                        st = pj.make_stream(cfg, pj.make_options(cfg, flow=flow))
                        got_ok, written = True, int(st.stream_types.logical_type)
                    except Exception:  # noqa: BLE001
                        got_ok, written = False, None
                    ctx.observe("type-pairs-construction")
                    ctx.observe("type-pairs-through-flow-object")
                    if got_ok != want_ok:
                        ctx.violation({"clause": "type-pair-construction", "pair": [phys, fl], "cfg": cfg, "flow": fcls.__name__,
                                       "summary": f"{classes[phys]} given an explicit {fcls.__name__}(logical type {fl}) is "
                                                  f"{'accepted' if got_ok else 'rejected'}; the specification "
                                                  f"{'allows' if want_ok else 'forbids'} the pair ({phys},{fl})"})
                    elif got_ok and written != fl:
                        ctx.violation({"clause": "flow-logical-type-not-declared", "pair": [phys, fl], "cfg": cfg, "flow": fcls.__name__,
                                       "summary": f"{classes[phys]} given an explicit {fcls.__name__}(logical type {fl}) declares "
                                                  f"logical type {written} in its header"})
                    ctx.case(("flow-pair", phys, fcls.__name__, fl, opt_logical, integ), True,
                             sample={"part": "type-pair-through-flow-object", "physical": phys, "flow": fcls.__name__, "flow_logical": fl})


# ------------------------------------------------------------------ (3) limits

def limits(ctx):
    # write side: name table < 8
    for n in (0, 1, 7):
        ctx.observe("limits-checked")
        try:
            LookupPreset(max_names=n)
            ctx.violation({"clause": "limit-write", "summary": f"LookupPreset(max_names={n}) accepted"})
        except Exception:  # noqa: BLE001
            pass
    # write side: version is never > 2 whatever the caller passes
    for v in (0, 3, 99):
        for ns in (False, True):
            ctx.observe("limits-checked")
            try:
                p = StreamParameters(version=v, namespace_declarations=ns)
            except Exception:  # noqa: BLE001
                continue
            if p.version != (2 if ns else 1):
                ctx.violation({"clause": "limit-write", "summary": f"StreamParameters(version={v}, ns={ns}) keeps version {p.version}"})
    # read side
    cases = []
    for n in (0, 1, 7):
        cases.append(("name-table-too-small", dict(sizes=(n, 8, 8))))
    for n in (4097, 5000, 1 << 20):
        cases.append(("name-table-too-large", dict(sizes=(n, 8, 8))))
        cases.append(("prefix-table-too-large", dict(sizes=(8, n, 8))))
        cases.append(("datatype-table-too-large", dict(sizes=(8, 8, n))))
    for v in (3, 4, 5, 255):
        cases.append(("version-too-new", dict(version=v)))
    for name, kw in cases:
        for phys in (1, 2, 3):
            for delimited in (True, False):
                data = header_stream(phys, 0, delimited=delimited, **kw)
                ref = refdec.decode(wire.dec_stream(data, delimited))
                if ref.violation is None:
                    ctx.inconc(f"reference decoder accepts limit case {name}")
                    continue
                ctx.observe("limits-checked")
                for entry, r in parse_all(data):
                    if r == "ok":
                        ctx.violation({"clause": "limit-read", "limit": name, "entry": entry, "bytes": data.hex(),
                                       "summary": f"{entry} accepted a header with {name} ({kw})"})
                ctx.case(("limit", name, str(kw), phys, delimited), True,
                         sample={"part": "limit", "case": name, "args": {k: list(v) if isinstance(v, tuple) else v for k, v in kw.items()}})
    # accepted boundary values must still be accepted
    for kw in (dict(sizes=(8, 0, 0)), dict(sizes=(4096, 4096, 4096)), dict(version=2), dict(version=1)):
        data = header_stream(1, 1, **kw)
        for entry, r in parse_all(data):
            ctx.observe("limits-checked")
            if r != "ok":
                ctx.violation({"clause": "limit-read-too-strict", "entry": entry,
                               "summary": f"{entry} rejected a legal header {kw}: {r}"})


# ------------------------------------------------------------------ (4) strictness matrix

def strict_matrix(ctx):
    for phys in (1, 2, 3):
        results = {}
        for logical in LOGICALS:
            if not spec_compatible(phys, logical):
                continue
            data = header_stream(phys, logical, more_frames=True)
            for integ, mod in (("generic", gparse), ("rdflib", rparse)):
                for entry in ("flat", "flat-preread-header", "grouped"):
                    for strict in (True, False):
                        try:
                            if entry == "flat":
                                evs = [(T.event_from_generic if integ == "generic" else T.event_from_rdflib)(x)
                                       for x in mod.parse_jelly_flat(io.BytesIO(data), logical_type_strict=strict)]
                            elif entry == "flat-preread-header":
                                # the documented two-step use: the caller reads options and frames itself and hands both over
                                from pyjelly.parse.ioutils import get_options_and_frames
                                inp = io.BytesIO(data)
                                o_, f_ = get_options_and_frames(inp)
                                evs = [(T.event_from_generic if integ == "generic" else T.event_from_rdflib)(x)
                                       for x in mod.parse_jelly_flat(inp, frames=f_, options=o_, logical_type_strict=strict)]
                            else:
                                # what is parsed = the sequence of graphs/datasets handed out, empty ones included
                                evs = [("sink", tuple(T.norm_events(s[0])))
                                       for s in pj.iter_grouped(integ, data, logical_type_strict=strict)]
                            got = "ok"
                        except Exception as e:  # noqa: BLE001
                            got, evs = type(e).__name__, None
                        ctx.observe("strict-matrix-cells")
                        if strict:
                            want_ok = (logical in FLAT) if entry.startswith("flat") else (logical in GROUPED)
                            if (got == "ok") != want_ok:
                                ctx.violation({"clause": "strict-matrix", "cell": [phys, logical, integ, entry, strict],
                                               "summary": f"{integ} {entry} parser, strict: logical type {logical} "
                                                          f"{'accepted' if got == 'ok' else 'rejected'}, should be "
                                                          f"{'accepted' if want_ok else 'rejected'}"})
                        else:
                            if got != "ok":
                                ctx.violation({"clause": "non-strict-rejects", "cell": [phys, logical, integ, entry, strict],
                                               "summary": f"{integ} {entry} parser, strict off, logical {logical}: {got}"})
                            else:
                                results.setdefault((integ, entry), {})[logical] = T.norm_events(evs) if entry.startswith("flat") else evs
                        ctx.case(("strict", phys, logical, integ, entry, strict), True,
                                 sample={"part": "strict-matrix", "physical": phys, "logical": logical, "parser": f"{integ}:{entry}",
                                         "strict": strict, "outcome": got})
            # the load-everything entry points (no strict flag there): what ends up in the caller's store / sink
            import rdflib
            for integ, entry in (("generic", "to_graph"), ("rdflib", "to_graph"), ("rdflib", "Graph.parse"), ("rdflib", "Dataset.parse")):
                if entry == "Graph.parse" and phys != 1:
                    continue
                try:
                    if entry == "to_graph":
                        evs = sorted((e for e in T.norm_events(pj.parse(integ, "to_graph", data)) if e[0] == "stmt"), key=repr)
                    else:
                        store = rdflib.Graph(bind_namespaces="none") if entry == "Graph.parse" else rdflib.Dataset(default_union=False)
                        store.parse(data=data, format="jelly")
                        evs = sorted(T.norm_events([("stmt", x) for x in T.rdflib_store_statements(store)]), key=repr)
                    got = "ok"
                except Exception as e:  # noqa: BLE001
                    got, evs = type(e).__name__, None
                ctx.observe("strict-matrix-cells")
                if got != "ok":
                    ctx.violation({"clause": "non-strict-rejects", "cell": [phys, logical, integ, entry, False],
                                   "summary": f"{integ} {entry}, logical {logical}: {got}"})
                else:
                    results.setdefault((integ, entry), {})[logical] = evs
                    if not evs:
                        ctx.violation({"clause": "logical-type-influences-parse", "cell": [phys, logical, integ, entry, False],
                                       "summary": f"{integ} {entry}, physical {phys}, logical {logical}: the caller's store is EMPTY after the parse"})
        for key, by_logical in results.items():
            vals = list(by_logical.values())
            if any(v != vals[0] for v in vals):
                ctx.violation({"clause": "logical-type-influences-parse", "summary": f"{key} physical {phys}: results differ "
                                                                                     f"between logical types {sorted(by_logical)}"})


def child_case(ctx, rng, k):
    if k == 0:
        type_pairs(ctx)
        flow_object_pairs(ctx)
        limits(ctx)
        strict_matrix(ctx)
    elif k % 5 == 3:
        reused_options_case(ctx, rng)
    else:
        header_case(ctx, rng)


def run_shard(ctx):
    if ctx.shard == 1 % ctx.nshards:
        # the finite tables and a slice of the header cases again in an interpreter started with -O
        from .. import childopt
        childopt.run(ctx, ID, 150)
    if ctx.shard == 0:
        type_pairs(ctx)
        flow_object_pairs(ctx)
        limits(ctx)
        strict_matrix(ctx)
        ctx.extra["tables_complete"] = True
    i = 0
    while not ctx.out_of_time():
        if i % 6 == 5:
            late_params_case(ctx, ctx.rng(i))
        elif i % 6 == 2:
            reused_options_case(ctx, ctx.rng(i))
        else:
            header_case(ctx, ctx.rng(i))
        i += 1
        if ctx.tier == "quick" and i > 4000:
            break


def EXHAUSTIVE(merged, tier):
    return any(ex.get("tables_complete") for ex in merged["extra"])


def replay(w: dict):
    class _Ctx:
        def __init__(self):
            self.v = []
        def violation(self, x):
            self.v.append(x)
        def observe(self, *a, **k):
            pass
        def case(self, *a, **k):
            pass
        def inconc(self, *a):
            pass
    c = _Ctx()
    if w["clause"].startswith("type-pair") or w["clause"] == "flow-logical-type-not-declared":
        type_pairs(c)
        flow_object_pairs(c)
    elif w["clause"].startswith("limit"):
        limits(c)
    elif w["clause"] in ("strict-matrix", "non-strict-rejects", "logical-type-influences-parse"):
        strict_matrix(c)
    else:
        return {"clause": w["clause"], "summary": "header witnesses are reproduced by re-running ./check C13 with the same VERIF_SEED"}
    for x in c.v:
        if x["clause"] == w["clause"] and x.get("pair") == w.get("pair") and x.get("cell") == w.get("cell") and x.get("limit") == w.get("limit"):
            return x
    return None


def classify(w: dict):
    return None
