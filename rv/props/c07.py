"""C07 - frame boundaries never change content; grouped I/O is one sink per frame."""
from __future__ import annotations

import io
from contextvars import ContextVar

from .. import gen, pj, refdec, wire, workloads
from .. import terms as T

from pyjelly.integrations.generic import serialize as gser  # noqa: E402
from pyjelly.integrations.rdflib import serialize as rser  # noqa: E402

ID = "C07"
LEVEL = "exploration"
RULE = ("(a) the row sequence of valid streams (pyjelly- and reference-producer-made) is re-cut with random cut vectors "
        "(including 1 row per frame, everything in one frame, empty frames, frames carrying metadata), re-encoded with "
        "rv.wire; the flat parse of every re-partitioning must equal the flat parse of the original. (b) grouped parsing of "
        "the same bytes: number of sinks == number of frames, sink i holds exactly frame i's statements, concatenation == "
        "flat parse, and the caller's ContextVar shows frame i's metadata when sink i is received, when the sink factory for frame i "
        "is called, and at the top of a per-frame loop over parse_triples_stream / parse_quads_stream; also with a consumer that takes "
        "every sink inside its own contextvars.copy_context().run() (<= 40 frames) or on its own thread (<= 6 frames). (c) sequences of 1-12 "
        "graphs/datasets (some empty, some with more rows than the default frame size) written through ONE shared stream with each "
        "grouped logical type - requested through logical_type or through an explicit GraphsFrameFlow()/DatasetsFrameFlow() object - via "
        "grouped_stream_to_frames / _to_file of both integrations: frames carrying >= 1 statement row == non-empty inputs, "
        "in order, one each, and grouped parsing returns the input groups. (d) two re-cut streams parsed side by side (two grouped "
        "parsers advanced alternately; two flat parsers merged): each hands out what it hands out alone. Non-trivial: re-partitionings that cut between an "
        "entry row and its use or between a term and its elided repeat; group sequences with >= 2 non-empty groups sharing "
        "terms. Distinct by hash of bytes / groups.")
ASSUMPTIONS = [
    "an options-only first frame written for an empty first group is tolerated (the stream must start with options)",
    "GRAPHS-family logical types are exercised with triple sinks / rdflib Graphs, DATASETS-family with quad sinks / Datasets",
]
ANCHORS = ["pyjelly/parse/ioutils.py", "pyjelly/parse/decode.py", "pyjelly/integrations/generic/parse.py",
           "pyjelly/integrations/rdflib/parse.py", "pyjelly/integrations/generic/serialize.py",
           "pyjelly/integrations/rdflib/serialize.py", "pyjelly/serialize/flows.py"]
MARKERS = {
    "metadata-set": ("pyjelly/integrations/generic/parse.py", r"frame_metadata\.set\("),
    "skipped-empty-frames-rechained": ("pyjelly/parse/ioutils.py", r"chain\(skipped_frames"),
    "frame-per-graph": ("pyjelly/serialize/flows.py", r"class GraphsFrameFlow"),
}
REQUIRED_OBSERVED = ["repartitionings", "grouped-parses", "group-sequences-written", "metadata-visible-checks"]
MIN_NONTRIVIAL = 30
MANIFEST = {
    "text": "Re-partitions the rows of valid streams into arbitrary frames (independent wire encoder) and requires identical "
            "flat results, per-frame sinks with the right metadata visible, and one frame per non-empty group on the writer "
            "side with lookup/repeated-term state carried across frames.",
    "note": "Trusted base: rv.wire re-encoding and rv.refdec per-frame events. Group sequences up to 12 groups.",
    "technique": "runtime monitoring: metamorphic re-framing oracle + per-frame sink/metadata observation + frame-count audit",
}


def plan(tier: str) -> dict:
    return {"shards": 4, "budget_s": 35} if tier == "quick" else {"shards": 16, "budget_s": 300}


# ------------------------------------------------------------------ (a) + (b)

def recut(rng, rows: list) -> list:
    mode = rng.choice(["random", "each", "one", "pairs"])
    frames = []
    i = 0
    n = len(rows)
    while i < n:
        if rng.random() < .15:
            frames.append({"rows": [], "metadata": _meta(rng, len(frames)) if frames and rng.random() < .3 else []})
        k = {"each": 1, "one": n, "pairs": 2}.get(mode) or rng.randint(1, max(1, min(10, n - i)))
        frames.append({"rows": rows[i:i + k], "metadata": _meta(rng, len(frames)) if rng.random() < .4 else []})
        i += k
    if rng.random() < .2:
        frames.append({"rows": [], "metadata": []})
    return frames


def _meta(rng, j):
    return [(f"k{j}", bytes([j % 251, 7])), ("n", str(j).encode())][: rng.randint(1, 2)]


def cut_kinds(frames: list) -> set:
    kinds = set()
    for a, b in zip(frames, frames[1:]):
        if a["rows"] and b["rows"]:
            if a["rows"][-1][0] in ("name", "prefix", "datatype"):
                kinds.add("between-entry-and-use")
            nxt = b["rows"][0]
            if nxt[0] in ("triple", "quad") and any(nxt[1].get(s) is None for s in ("spog" if nxt[0] == "quad" else "spo")):
                kinds.add("between-term-and-elided-repeat")
    return kinds


def check_reframing(ctx, rng, vs, integs):
    rows = [r for fr in vs["frames"] for r in fr["rows"]]
    base = {}
    for integ in integs:
        try:
            base[integ] = T.norm_events(pj.parse(integ, "flat", vs["data"]))
        except Exception as e:  # noqa: BLE001
            ctx.observe("baseline-raised (C04 decides)")
            return
        if base[integ] != T.norm_events(vs["events"]):
            ctx.observe("baseline-differs (C04 decides)")
            return
    for _ in range(4):
        frames = recut(rng, rows)
        data = wire.enc_stream(frames, True)
        ref = refdec.decode(wire.dec_stream(data, True))
        if ref.violation is not None or T.norm_events(ref.events) != T.norm_events(vs["events"]):
            ctx.inconc("re-framed stream is not valid for the reference decoder")
            return
        kinds = cut_kinds(frames)
        for kk in kinds:
            ctx.observe(f"cut:{kk}")
        ctx.observe("repartitionings")
        w = None
        for integ in integs:
            try:
                got = T.norm_events(pj.parse(integ, "flat", data))
            except Exception as e:  # noqa: BLE001
                w = {"clause": "reframed-parse-raised", "summary": f"{integ}: {type(e).__name__}: {e}"}
                break
            if got != base[integ]:
                w = {"clause": "reframed-parse-differs", "summary": f"{integ}: flat parse changed with the frame cuts "
                                                                    f"({len(got)} vs {len(base[integ])} events)"}
                break
            w = check_grouped(ctx, integ, data, frames, ref, base[integ]) or \
                check_metadata_early(ctx, integ, data, frames, vs["physical"])
            if w:
                break
        if w:
            w.update({"bytes": data.hex(), "original": vs["data"].hex(), "integrations": integs,
                      "frames": [len(f["rows"]) for f in frames]})
            ctx.violation(w)
        ctx.case(gen.case_hash(data), bool(kinds),
                 sample={"part": "reframing", "rows": len(rows), "frame_sizes": [len(f["rows"]) for f in frames][:20],
                         "cut_kinds": sorted(kinds), "producer": vs["producer"]})


def check_grouped(ctx, integ, data, frames, ref, flat_events):
    consumers = ["plain"] + (["context"] if len(frames) <= 40 else []) + (["thread"] if len(frames) <= 6 else [])
    for consumer in consumers:
        w = _check_grouped(ctx, integ, data, frames, ref, flat_events, consumer)
        if w is not None:
            if consumer != "plain":
                w["consumer"] = consumer
                w["summary"] = (f"[every sink taken in its own {'contextvars.Context' if consumer == 'context' else 'thread'}] "
                                + w["summary"])
            return w
    return None


def _check_grouped(ctx, integ, data, frames, ref, flat_events, consumer):
    cv: ContextVar = ContextVar("rv_frame_metadata", default={"<unset>": b""})
    sinks = []
    try:
        it = pj.iter_grouped(integ, data, frame_metadata=cv) if consumer == "plain" else \
            pj.iter_grouped_stepped(integ, data, cv, consumer)
        for sts, nss, meta in it:
            sinks.append((T.norm_events(sts), nss, meta))
    except Exception as e:  # noqa: BLE001
        return {"clause": "grouped-parse-raised", "summary": f"{integ}: {type(e).__name__}: {e}"}
    ctx.observe("grouped-parses")
    ctx.observe(f"grouped-consumer:{consumer}")
    if len(sinks) != len(frames):
        return {"clause": "sink-count", "summary": f"{integ}: {len(sinks)} sinks for {len(frames)} frames"}
    concat = []
    for k, (sts, nss, meta) in enumerate(sinks):
        want = [T.norm_event(e) for e in ref.per_frame[k] if e[0] == "stmt"]
        if (sts != want) if integ == "generic" else (set(sts) != set(want)):
            return {"clause": "sink-content", "summary": f"{integ}: sink {k} holds {len(sts)} statements, frame {k} has {len(want)}"}
        concat.extend(want)
        want_meta = dict(frames[k].get("metadata") or [])
        ctx.observe("metadata-visible-checks")
        if want_meta:
            ctx.observe("metadata-nonempty-frames")
        if meta != want_meta:
            return {"clause": "metadata", "summary": f"{integ}: while sink {k} was received the ContextVar showed {meta!r}, "
                                                     f"frame {k} carries {want_meta!r}"}
    if concat != [e for e in flat_events if e[0] == "stmt"]:
        return {"clause": "concat-differs", "summary": f"{integ}: concatenated sinks != flat parse"}
    return None


def check_interleaved(ctx, rng):
    """Two streams parsed side by side (zip of two grouped parsers; a merge of two flat parsers), the caller switching
    between them at frame / item boundaries: each must hand out exactly what it hands out when parsed alone."""
    from pyjelly.integrations.generic import parse as gparse
    from pyjelly.integrations.rdflib import parse as rparse

    datas, modes = [], []
    for _ in range(2):
        mode = "rdf11" if rng.random() < .6 else "generic"
        vs = workloads.valid_stream(rng, mode=mode, delimited=True, max_len=15)
        if vs is None:
            return
        rows = [r for fr in vs["frames"] for r in fr["rows"]]
        datas.append(wire.enc_stream(recut(rng, rows), True))
        modes.append(mode)
    integ = "generic" if "generic" in modes or rng.random() < .5 else "rdflib"
    canon = (lambda evs: evs) if integ == "generic" else (lambda evs: sorted(evs, key=repr))
    try:
        solo_g = [[canon(T.norm_events(x[0])) for x in pj.iter_grouped(integ, d)] for d in datas]
        solo_f = [T.norm_events(pj.parse(integ, "flat", d)) for d in datas]
    except Exception:  # noqa: BLE001
        ctx.observe("baseline-raised (C04 decides)")
        return
    w = None
    # grouped, advanced alternately
    its = [iter(pj.iter_grouped(integ, d)) for d in datas]
    got = [[], []]
    alive = [True, True]
    try:
        while any(alive):
            for k in (0, 1):
                for _step in range(rng.randint(1, 2)):
                    if alive[k]:
                        x = next(its[k], None)
                        if x is None:
                            alive[k] = False
                        else:
                            got[k].append(canon(T.norm_events(x[0])))
    except Exception as e:  # noqa: BLE001
        w = {"clause": "interleaved-grouped-raised", "summary": f"{integ}: {type(e).__name__}: {e}"}
    if w is None:
        for k in (0, 1):
            if got[k] != solo_g[k]:
                j = next((i for i, (a, b) in enumerate(zip(got[k], solo_g[k])) if a != b), min(len(got[k]), len(solo_g[k])))
                w = {"clause": "interleaved-grouped-differs",
                     "summary": f"{integ}: stream {k} parsed next to another stream hands out a different graph/dataset #{j} "
                                f"than when parsed alone"}
                break
    ctx.observe("interleaved-grouped-parses")
    if w is None:
        mod = gparse if integ == "generic" else rparse
        conv = T.event_from_generic if integ == "generic" else T.event_from_rdflib
        its = [iter(mod.parse_jelly_flat(io.BytesIO(d))) for d in datas]
        got = [[], []]
        alive = [True, True]
        try:
            while any(alive):
                for k in (0, 1):
                    for _step in range(rng.randint(1, 4)):
                        if alive[k]:
                            x = next(its[k], None)
                            if x is None:
                                alive[k] = False
                            else:
                                got[k].append(T.norm_event(conv(x)))
        except Exception as e:  # noqa: BLE001
            w = {"clause": "interleaved-flat-raised", "summary": f"{integ}: {type(e).__name__}: {e}"}
        if w is None:
            for k in (0, 1):
                if got[k] != solo_f[k]:
                    w = {"clause": "interleaved-flat-differs", "summary": f"{integ}: stream {k} merged with another flat parse yields other items than alone"}
                    break
        ctx.observe("interleaved-flat-parses")
    if w:
        w.update({"kind": "interleaved", "integration": integ, "streams": [d.hex() for d in datas]})
        ctx.violation(w)
    ctx.case(("interleaved", integ, gen.case_hash(datas[0]), gen.case_hash(datas[1])), all(len(x) >= 2 for x in solo_g),
             sample={"part": "interleaved-parsers", "integration": integ, "frames": [len(x) for x in solo_g]})


def check_metadata_early(ctx, integ, data, frames, physical):
    """Frame i's metadata is what the caller's ContextVar shows from the moment frame i is being consumed: when the
    sink for it is built (a sink/graph/dataset factory that looks at the metadata, e.g. to name the graph) and at the
    top of a per-frame loop over parse_triples_stream / parse_quads_stream, before any row is pulled."""
    from pyjelly.integrations.generic import parse as gparse
    from pyjelly.integrations.rdflib import parse as rparse
    from pyjelly.parse.ioutils import get_options_and_frames

    want = [dict(f.get("metadata") or []) for f in frames]
    cv: ContextVar = ContextVar("rv_frame_metadata_early", default={"<unset>": b""})
    seen: list = []
    try:
        if integ == "generic":
            from pyjelly.integrations.generic.generic_sink import GenericStatementSink

            def fac():
                seen.append(dict(cv.get()))
                return GenericStatementSink()
            for _s in gparse.parse_jelly_grouped(io.BytesIO(data), sink_factory=fac, frame_metadata=cv):
                pass
        else:
            import rdflib

            def gfac():
                seen.append(dict(cv.get()))
                return rdflib.Graph(bind_namespaces="none")

            def dfac():
                seen.append(dict(cv.get()))
                return rdflib.Dataset(default_union=False)
            for _s in rparse.parse_jelly_grouped(io.BytesIO(data), graph_factory=gfac, dataset_factory=dfac, frame_metadata=cv):
                pass
    except Exception as e:  # noqa: BLE001
        return {"clause": "grouped-parse-raised", "summary": f"{integ} (factory reading metadata): {type(e).__name__}: {e}"}
    ctx.observe("metadata-seen-by-sink-factory-checks", len(seen))
    if seen != want:
        k = next((i for i, (a, b) in enumerate(zip(seen, want)) if a != b), min(len(seen), len(want)))
        return {"clause": "metadata-at-sink-construction", "summary": f"{integ}: the factory building the sink for frame {k} saw "
                                                                       f"{seen[k] if k < len(seen) else None!r}, frame {k} carries {want[k] if k < len(want) else None!r}"}
    mod = gparse if integ == "generic" else rparse
    inp = io.BytesIO(data)
    tops: list = []
    try:
        options, fr_it = get_options_and_frames(inp)
        fn = mod.parse_triples_stream if physical == 1 else mod.parse_quads_stream
        for rows in fn(frames=fr_it, options=options, frame_metadata=cv):
            tops.append(dict(cv.get()))
            for _item in rows:
                pass
    except Exception as e:  # noqa: BLE001
        return {"clause": "grouped-parse-raised", "summary": f"{integ} (per-frame loop): {type(e).__name__}: {e}"}
    ctx.observe("metadata-at-top-of-frame-loop-checks", len(tops))
    if tops != want:
        k = next((i for i, (a, b) in enumerate(zip(tops, want)) if a != b), min(len(tops), len(want)))
        return {"clause": "metadata-at-top-of-frame-loop", "summary": f"{integ}: at the top of the loop body for frame {k} the ContextVar "
                                                                       f"showed {tops[k] if k < len(tops) else None!r}, frame {k} carries {want[k] if k < len(want) else None!r}"}
    return None


# ------------------------------------------------------------------ (c)

GROUPED_LOGICALS = {3: 3, 13: 3, 4: 4, 14: 4, 114: 4}   # logical -> base


def make_groups(rng, arity: int, mode: str):
    v = gen.Vocab(rng, mode, n_ns=2, n_local=5)
    ngroups = rng.randint(1, 12)
    groups = []
    for _ in range(ngroups):
        if rng.random() < .25:
            groups.append([])
            continue
        sts = gen.statements(rng, rng.randint(1, 6), arity, mode, vocab=v)
        seen = []
        for s in sts:            # rdflib stores are sets: keep groups duplicate-free so both sides agree
            if T.norm_stmt(s) not in [T.norm_stmt(x) for x in seen]:
                seen.append(s)
        groups.append(seen)
    return groups


def check_group_writing(ctx, rng):
    integ = rng.choice(["generic", "rdflib"])
    logical = rng.choice(list(GROUPED_LOGICALS))
    arity = 3 if GROUPED_LOGICALS[logical] == 3 else 4
    mode = "rdf11" if integ == "rdflib" else rng.choice(["generic", "rdf11"])
    groups = make_groups(rng, arity, mode)
    if rng.random() < .3:
        # one group with more rows than the default frame size of 250: still exactly one frame per group
        big = [tuple([("iri", f"http://ex.org/big/s{k}"), ("iri", "http://ex.org/big/p"), ("lit", str(k), None, None)]
                     + ([("iri", "http://ex.org/big/g")] if arity == 4 else [])) for k in range(rng.randint(260, 340))]
        groups.insert(rng.randint(0, len(groups)), big)
    allst = [s for g in groups for s in g]
    preset = gen.preset_for(rng, allst or [(("iri", "a"),) * arity], 1 if arity == 3 else 2)
    cfg = {"physical": 1 if arity == 3 else 2, "preset": preset, "logical": logical, "frame_size": rng.choice([1, 3, 250]),
           "delimited": True, "generalized": mode == "generic", "rdf_star": mode == "generic"}
    flow_obj = None
    if rng.random() < .35:
        # the grouping requested through an explicit (freshly built, hence empty) flow object instead of logical_type
        from pyjelly.serialize import flows as F
        flow_obj = (F.GraphsFrameFlow if GROUPED_LOGICALS[logical] == 3 else F.DatasetsFrameFlow)()
        cfg["explicit_flow"] = type(flow_obj).__name__
        if rng.random() < .5:
            cfg["logical"] = 0
    via = rng.choice(["frames", "file"])
    if via == "file" and flow_obj is None and rng.random() < .3:
        # the caller's options say delimited=False; grouped_stream_to_file decides how the frames reach the file.
        # Whatever it does, the file must still hold one frame per non-empty group (a refusal would be fine too).
        cfg["delimited"] = False
    binds = []
    if rng.random() < .3:
        # every graph/dataset of the sequence binds the same namespaces, declarations on (each sink declares them again)
        cfg["ns"] = True
        binds = workloads.bindings(rng, None, k=rng.randint(1, 3))
        n_, p_, d_ = cfg["preset"]
        need = gen.need_of(allst or [(("iri", "a"),) * arity], cfg["physical"], p_ > 0, [("ns", a, b) for a, b in binds])
        cfg["preset"] = (max(n_, need[1], 8), max(p_, need[0]) if p_ else 0, d_)
        ctx.observe("group-sequences-with-declarations")
    options = pj.make_options(cfg, flow=flow_obj)
    out = io.BytesIO()
    try:
        # the graphs / datasets handed over as a generator, or as a re-iterable container (list, tuple)
        as_kind = rng.choice(["generator", "generator", "list", "tuple"])
        ctx.observe(f"groups-handed-over-as:{as_kind}")
        cfg["sinks_as"] = as_kind
        wrap = {"generator": lambda g_: g_, "list": list, "tuple": tuple}[as_kind]
        if integ == "generic":
            sinks = wrap(pj.generic_sink_of(g, binds) for g in groups)
            if via == "file":
                gser.grouped_stream_to_file(sinks, out, options=options)
            else:
                pj.write_frames(gser.grouped_stream_to_frames(sinks, options=options), out, True)
        else:
            stores = wrap(pj.rdflib_store_of(g, binds, dataset=arity == 4) for g in groups)
            if via == "file":
                rser.grouped_stream_to_file(stores, out, options=options)
            else:
                pj.write_frames(rser.grouped_stream_to_frames(stores, options=options), out, True)
    except Exception as e:  # noqa: BLE001
        if not allst or not groups[0]:
            ctx.observe("group-writing-raised-on-empty-first-group")   # an empty first sink cannot tell its arity
            return
        if not cfg["delimited"] and type(e).__name__ == "JellyConformanceError":
            ctx.observe("group-writing-refused-for-non-delimited-options")
            return
        ctx.violation({"clause": "group-writing-raised", "summary": f"{integ} logical {logical}: {type(e).__name__}: {e}",
                       "integration": integ, "logical": logical, "groups": T.to_json(groups), "cfg": cfg, "via": via})
        return
    data = out.getvalue()
    ctx.observe("group-sequences-written")
    ctx.observe(f"groups:{integ}:logical{logical}")
    if not cfg["delimited"]:
        ctx.observe("groups-written-with-delimited-false-options")
    w = judge_groups(integ, data, groups)
    nonempty = [g for g in groups if g]
    if w:
        w.update({"integration": integ, "logical": logical, "groups": T.to_json(groups), "cfg": cfg, "via": via,
                  "bytes": data.hex()})
        ctx.violation(w)
    ctx.case(("groups", integ, logical, groups), len(nonempty) >= 2,
             sample={"part": "group-writing", "integration": integ, "logical": logical,
                     "group_sizes": [len(g) for g in groups], "via": via})


def check_huge_group(ctx, rng):
    """One graph big enough to make a single frame of more than 2 MiB (length prefix of 4 bytes), between two small ones,
    written with a grouped logical type: still exactly one frame per graph, and the groups come back."""
    integ = rng.choice(["generic", "rdflib"])
    n = 9000
    pad = "x" * 230
    big = [(("iri", f"http://ex.org/huge/s{k}"), ("iri", "http://ex.org/huge/p"), ("lit", f"{k}-{pad}", None, None)) for k in range(n)]
    small1 = [(("iri", "http://ex.org/huge/a"), ("iri", "http://ex.org/huge/p"), ("lit", "1", None, None))]
    small2 = [(("iri", "http://ex.org/huge/b"), ("iri", "http://ex.org/huge/p"), ("lit", "2", None, None))]
    groups = [small1, big, small2]
    cfg = {"physical": 1, "preset": (64, 8, 4), "logical": rng.choice([3, 13]), "frame_size": 250, "delimited": True,
           "generalized": False, "rdf_star": False}
    out = io.BytesIO()
    try:
        if integ == "generic":
            gser.grouped_stream_to_file((pj.generic_sink_of(g) for g in groups), out, options=pj.make_options(cfg))
        else:
            rser.grouped_stream_to_file((pj.rdflib_store_of(g, dataset=False) for g in groups), out, options=pj.make_options(cfg))
    except Exception as e:  # noqa: BLE001
        ctx.violation({"clause": "group-writing-raised", "summary": f"{integ} huge group: {type(e).__name__}: {e}", "kind": "huge-group"})
        return
    data = out.getvalue()
    ctx.observe("huge-group-sequences-written")
    ctx.observe("group-sequences-written")
    w = None
    try:
        frames = wire.dec_stream(data, True)
        sizes = [f["span"][1] - f["span"][0] for f in frames]
        if max(sizes) >= 1 << 21:
            ctx.observe("frames-of-2MiB-or-more")
        per = [sum(1 for r in f["rows"] if r[0] == "triple") for f in frames]
        if [x for x in per if x] != [1, n, 1]:
            w = {"clause": "frame-count", "summary": f"{integ}: frames carry {[x for x in per if x]} triples for groups [1, {n}, 1]"}
    except wire.WireError as e:
        w = {"clause": "written-bytes-malformed", "summary": f"{integ}: a group of {n} triples ({len(data)} bytes written): {e}"}
    if w is None:
        try:
            got = [len(x[0]) for x in pj.iter_grouped(integ, data)]
            if [x for x in got if x] != [1, n, 1]:
                w = {"clause": "grouped-roundtrip", "summary": f"{integ}: grouped parse returns groups of sizes {got}"}
        except Exception as e:  # noqa: BLE001
            w = {"clause": "grouped-parse-raised", "summary": f"{integ}: {type(e).__name__}: {e}"}
    if w:
        w.update({"kind": "huge-group", "integration": integ, "cfg": cfg})
        ctx.violation(w)
    ctx.case(("huge-group", integ, cfg["logical"]), True, sample={"part": "group-writing", "kind": "huge group", "bytes": len(data)})


def judge_groups(integ: str, data: bytes, groups: list):
    nonempty = [[T.norm_stmt(s) for s in g] for g in groups if g]
    try:
        frames = wire.dec_stream(data, True) if data else []
    except wire.WireError as e:
        # not length-prefixed: maybe one bare frame (fine for <= 1 non-empty group; the frame count below decides)
        try:
            frames = wire.dec_stream(data, False)
        except wire.WireError:
            return {"clause": "written-bytes-malformed", "summary": str(e)}
    ref = refdec.decode(frames)
    if ref.violation is not None:
        return {"clause": "written-bytes-invalid", "summary": str(ref.violation)}
    per_frame = [[T.norm_event(e)[1] for e in evs if e[0] == "stmt"] for evs in ref.per_frame]
    carrying = [f for f in per_frame if f]
    ordered = integ == "generic"
    if len(carrying) != len(nonempty):
        return {"clause": "frame-count", "summary": f"{len(carrying)} frames carry statements for {len(nonempty)} non-empty groups "
                                                    f"(frame sizes {[len(f) for f in per_frame]}, groups {[len(g) for g in groups]})"}
    for k, (f, g) in enumerate(zip(carrying, nonempty)):
        if (f != g) if ordered else (set(f) != set(g)):
            return {"clause": "frame-content", "summary": f"frame #{k} with statements does not hold group #{k}"}
    # (a frame that carries the namespace declarations of a graph without statements is that graph's frame, not a stray one)
    extra = [i for i, f in enumerate(per_frame) if not f and not any(e[0] == "ns" for e in ref.per_frame[i])]
    if any(i != 0 for i in extra):
        return {"clause": "statement-less-frame", "summary": f"statement-less frames at positions {extra} (only an options-only first frame is tolerated)"}
    try:
        sinks = [T.norm_events(s[0]) for s in pj.iter_grouped(integ, data)] if data else []
    except Exception as e:  # noqa: BLE001
        return {"clause": "grouped-parse-raised", "summary": f"{type(e).__name__}: {e}"}
    got = [[e[1] for e in s] for s in sinks if s]
    if len(got) != len(nonempty) or any((a != b) if ordered else (set(a) != set(b)) for a, b in zip(got, nonempty)):
        return {"clause": "grouped-roundtrip", "summary": f"grouped parse returns groups of sizes {[len(x) for x in got]}, "
                                                          f"input {[len(x) for x in nonempty]}"}
    return None


def check_dataset_graphs_writing(ctx, rng):
    """rdflib Datasets written with logical type GRAPHS / SUBJECT_GRAPHS: the dataset's graphs are unpacked and each
    non-empty graph travels in exactly one frame (documented behaviour of triples_stream_frames)."""
    v = gen.Vocab(rng, "rdf11", n_ns=1, n_local=3)
    v.p_sepless = 0.0
    datasets = []
    for _d in range(rng.randint(1, 3)):
        quads = []
        for gi in range(rng.randint(2, 6)):
            g = ("iri", f"http://ex.org/graph/{gi}") if rng.random() < .8 else ("bnode", f"g{gi}")
            for _t in range(rng.choice([1, 1, 1, 2, 3])):      # many single-triple graphs re-using known vocabulary
                quads.append((("iri", "http://ex.org/ns/s"), ("iri", "http://ex.org/ns/p"),
                              rng.choice([("lit", "x", None, None), ("lit", "y", None, None), v.iri()]), g))
        datasets.append(quads)
    logical = rng.choice([3, 13])
    cfg = {"physical": 1, "preset": (64, 8, 4), "logical": logical, "frame_size": rng.choice([1, 3, 250]),
           "delimited": True, "generalized": False, "rdf_star": False}
    options = pj.make_options(cfg)
    stores = [pj.rdflib_store_of(q, dataset=True) for q in datasets]
    # expected frame contents: the triples of each non-empty graph (order of graphs: whatever the store yields)
    expected = []
    for st in stores:
        for g in st.graphs():
            trip = sorted(T.norm_stmt(tuple(T.from_rdflib(t) for t in tr)) for tr in g)
            if trip:
                expected.append(trip)
    out = io.BytesIO()
    via = rng.choice(["frames", "file", "serialize"])
    try:
        if via == "file":
            rser.grouped_stream_to_file((s for s in stores), out, options=options)
        elif via == "frames":
            pj.write_frames(rser.grouped_stream_to_frames((s for s in stores), options=options), out, True)
        else:
            stores = stores[:1]
            expected = [sorted(T.norm_stmt(tuple(T.from_rdflib(t) for t in tr)) for tr in g) for g in stores[0].graphs() if len(g)]
            stores[0].serialize(out, format="jelly", options=options)
    except Exception as e:  # noqa: BLE001
        ctx.violation({"clause": "group-writing-raised", "summary": f"rdflib Dataset with logical {logical}: {type(e).__name__}: {e}",
                       "integration": "rdflib", "logical": logical, "cfg": cfg, "via": via, "datasets": T.to_json(datasets)})
        return
    ctx.observe("group-sequences-written")
    ctx.observe("dataset-as-graphs-written")
    data = out.getvalue()
    w = None
    try:
        ref = refdec.decode(wire.dec_stream(data, True))
        if ref.violation is not None:
            w = {"clause": "written-bytes-invalid", "summary": str(ref.violation)}
        else:
            frames = [sorted(T.norm_event(e)[1] for e in evs if e[0] == "stmt") for evs in ref.per_frame]
            carrying = [f for f in frames if f]
            if len(carrying) != len(expected):
                w = {"clause": "frame-count", "summary": f"{len(carrying)} frames carry statements for {len(expected)} non-empty graphs "
                                                         f"of {len(stores)} dataset(s) (frame sizes {[len(f) for f in frames]}, graph sizes {[len(x) for x in expected]})"}
            elif sorted(carrying) != sorted(expected):
                # rdflib's Dataset.graphs() yields a different order on every call, even on the same object:
                # the frames are compared with the graphs as a multiset
                w = {"clause": "frame-content", "summary": "the frames do not hold exactly one graph of the dataset(s) each"}
    except wire.WireError as e:
        w = {"clause": "written-bytes-malformed", "summary": str(e)}
    if w:
        w.update({"integration": "rdflib", "logical": logical, "cfg": cfg, "via": via, "datasets": T.to_json(datasets), "bytes": data.hex()})
        ctx.violation(w)
    ctx.case(("ds-graphs", logical, via, datasets), len(expected) >= 2,
             sample={"part": "dataset-as-graphs", "logical": logical, "via": via, "graph_sizes": [len(x) for x in expected]})


def run_shard(ctx):
    if ctx.shard % 2 == 0:
        check_huge_group(ctx, ctx.rng("huge"))
    i = 0
    while not ctx.out_of_time():
        rng = ctx.rng(i)
        i += 1
        if i % 12 == 5:
            check_dataset_graphs_writing(ctx, rng)
            continue
        if i % 3 == 0:
            check_group_writing(ctx, rng)
            continue
        if i % 7 == 1:
            check_interleaved(ctx, rng)
            continue
        mode = "rdf11" if rng.random() < .5 else "generic"
        vs = workloads.valid_stream(rng, mode=mode, delimited=True, max_len=25)
        if vs is None:
            continue
        check_reframing(ctx, rng, vs, ["generic"] if mode == "generic" else ["generic", "rdflib"])


def replay(w: dict):
    if w.get("kind") == "huge-group":
        return {"clause": w["clause"], "summary": "re-run ./check C07 with the same VERIF_SEED"}
    if w.get("kind") == "interleaved":
        return {"clause": w["clause"], "summary": "interleaved-parser witnesses are reproduced by re-running ./check C07 with the same VERIF_SEED"}
    if "datasets" in w:
        return {"clause": w["clause"], "summary": "dataset-as-graphs witnesses are reproduced by re-running ./check C07 with the same VERIF_SEED"}
    if "groups" in w:
        groups = [list(g) for g in T.from_json(w["groups"])]
        integ, cfg = w["integration"], w["cfg"]
        cfg["preset"] = tuple(cfg["preset"])
        flow_obj = None
        if cfg.get("explicit_flow"):
            from pyjelly.serialize import flows as F
            flow_obj = getattr(F, cfg["explicit_flow"])()
        options = pj.make_options(cfg, flow=flow_obj)
        out = io.BytesIO()
        arity = 3 if cfg["physical"] == 1 else 4
        wrap = {"list": list, "tuple": tuple}.get(cfg.get("sinks_as"), lambda x: x)
        if integ == "generic":
            gser.grouped_stream_to_file(wrap(pj.generic_sink_of(g) for g in groups), out, options=options)
        else:
            rser.grouped_stream_to_file(wrap(pj.rdflib_store_of(g, dataset=arity == 4) for g in groups), out, options=options)
        return judge_groups(integ, out.getvalue(), groups)
    data = bytes.fromhex(w["bytes"])
    orig = bytes.fromhex(w["original"])

    class _C:
        def observe(self, *a, **k):
            pass
    frames = wire.dec_stream(data, True)
    ref = refdec.decode(frames)
    for integ in w["integrations"]:
        a = T.norm_events(pj.parse(integ, "flat", orig))
        try:
            b = T.norm_events(pj.parse(integ, "flat", data))
        except Exception as e:  # noqa: BLE001
            return {"clause": "reframed-parse-raised", "summary": str(e)}
        if a != b:
            return {"clause": "reframed-parse-differs", "summary": "flat parse changed with the frame cuts"}
        r = check_grouped(_C(), integ, data, frames, ref, a) or \
            check_metadata_early(_C(), integ, data, frames, ref.options["physical_type"])
        if r:
            return r
    return None


def classify(w: dict):
    return None
