"""C04 - every valid Jelly stream decodes to exactly the statements it encodes."""
from __future__ import annotations

from collections import Counter

from .. import gen, pj, refdec, refenc, wire, workloads
from .. import terms as T

ID = "C04"
LEVEL = "exploration"
RULE = ("streams from the independent reference producer (random legal policy: eviction LRU/FIFO/MRU/random, arbitrary "
        "IRI split points, explicit vs zero ids, early and redundant entries, elision on/off, arbitrary frame cuts, empty "
        "frames, metadata, repeated identical options rows, split and empty graphs, delimited or single frame, versions 1-2, "
        "names 8..4096, prefixes/datatypes 0..4096), each first verified by the reference decoder, parsed with the six "
        "parse entry points; oracle: events == intended events (sequence for flat/generic, per frame for grouped, set "
        "for rdflib stores); flat and to_graph are repeated from a seekable input positioned after a foreign preamble and "
        "from non-seekable raw and buffered inputs (whole and 1-3 byte reads). Non-trivial: the stream actually used >= 2 kinds of legal-but-unlike-pyjelly choices; "
        "distinct by hash of the byte string.")
ASSUMPTIONS = [
    "valid streams never use version 0, tables > 4096 or a metadata-only first frame (DESIGN 3.5)",
    "rdflib entry points get the RDF 1.1 subset only; store results are compared as sets, field by field",
]
ANCHORS = ["pyjelly/parse/decode.py", "pyjelly/parse/lookup.py", "pyjelly/parse/ioutils.py",
           "pyjelly/integrations/generic/parse.py", "pyjelly/integrations/rdflib/parse.py", "pyjelly/options.py"]
MARKERS = {
    "reader-zero-entry-id": ("pyjelly/parse/lookup.py", r"index = previous_index \+ 1"),
    "reader-skips-empty-frames": ("pyjelly/parse/ioutils.py", r"skipped_frames\.append\(frame\)"),
    "reader-options-repeat": ("pyjelly/parse/decode.py", r"def validate_stream_options"),
    "reader-empty-prefix": ("pyjelly/parse/lookup.py", r'return ""'),
}
REQUIRED_OBSERVED = ["streams-parsed", "entry:generic:flat", "entry:rdflib:flat", "entry:generic:grouped",
                     "entry:rdflib:to_graph"]
MANIFEST = {
    "text": "An arbitrary-legal-choice producer that shares no code with pyjelly writes streams (self-verified by the "
            "reference decoder on every case); all six parse entry points must return exactly the intended events. "
            "The evidence counts which legal choices were actually exercised.",
    "note": "Trusted base: rv.refenc + rv.refdec + rv.wire (mutually checked on every case; disagreement is exit 2). "
            "Only choices the producer implements are covered.",
    "technique": "runtime monitoring: reference-producer streams through the real parsers, event-sequence oracle",
}


def plan(tier: str) -> dict:
    return {"shards": 4, "budget_s": 30} if tier == "quick" else {"shards": 16, "budget_s": 400}


def make_case(rng, mode: str, max_len: int = 30):
    phys = rng.choice([1, 2, 3])
    arity = 3 if phys == 1 else 4
    n = rng.choice([0, 1, 2]) if rng.random() < .1 else rng.randint(2, max_len)
    stmts = gen.statements(rng, n, arity, mode)
    events = [("stmt", s) for s in stmts]
    if rng.random() < 0.3:
        binds = workloads.bindings(rng, shared_iri=True)
        if binds and rng.random() < .4:
            # the same prefix label declared again later with ANOTHER namespace (what a stream of several sinks holds)
            binds.append((binds[0][0], rng.choice(["http://ex.org/redeclared/", "urn:redeclared:", binds[-1][1] + "x/"])))
        at = 0
        for prefix, iri in binds:
            at = rng.randint(at, len(events)) if rng.random() < .5 else at        # declaration order is kept
            events.insert(at, ("ns", prefix, iri))
            at += 1
    has_ns = any(e[0] == "ns" for e in events)
    sizes = refenc.sizes_for(rng, events, phys)
    options = refenc.make_options(rng, phys, sizes, has_ns)
    policy = refenc.Policy.random(rng) if rng.random() < .9 else refenc.Policy.plain()
    delimited = rng.random() < 0.85
    return phys, events, options, policy, delimited


def _expect(events):
    return T.norm_events(events)


def check_parsers(mode: str, pr: refenc.Produced, entries=None):
    """-> witness or None.  mode 'generic' checks the generic entry points, 'rdf11' both integrations."""
    want = _expect(pr.events)
    want_stmts = [e for e in want if e[0] == "stmt"]
    res = refdec.decode(wire.dec_stream(pr.data, pr.delimited))
    per_frame = [[T.norm_event(e) for e in fr] for fr in res.per_frame]
    integrations = ["generic"] if mode == "generic" else ["generic", "rdflib"]
    for integ in integrations:
        for entry in entries or ("flat", "grouped", "to_graph"):
            try:
                if entry == "grouped":
                    sinks = pj.parse_grouped(integ, pr.data)
                    got = None
                else:
                    got = T.norm_events(pj.parse(integ, entry, pr.data))
                    if entry == "flat" and T.norm_events(pj.parse(integ, "flat-prefetched", pr.data)) != got:
                        return {"clause": "events-differ", "entry": f"{integ}:flat-prefetched",
                                "summary": f"{integ}: two-step parse (get_options_and_frames, then parse_jelly_flat) differs from the one-step parse"}
                    if entry in ("flat", "to_graph"):
                        # the stream stored behind something else in a seekable container: the caller positions the
                        # file object at the stream's first byte (a preamble that would classify the other way)
                        import io
                        pre = (b"\x0a\x00" if pr.delimited else b"\x00\x01") + b"container-header" * 3
                        f = io.BytesIO(pre + pr.data)
                        f.seek(len(pre))
                        if T.norm_events(pj.parse(integ, entry, f)) != got:
                            return {"clause": "events-differ", "entry": f"{integ}:{entry}@offset",
                                    "summary": f"{integ}:{entry}: a stream handed over at a non-zero position of a seekable "
                                               f"input parses differently from the same bytes at position 0"}
                        # ... and the same bytes arriving through inputs that cannot seek (a pipe, a socket file, an
                        # HTTP body): raw and buffered, whole reads and short reads
                        import io as _io

                        from .. import sources
                        import zlib
                        sched = [[1 << 20], [1], [2, 1 << 20], [3], [1, 1, 1 << 20]][zlib.crc32(pr.data) % 5]
                        for nm, f in (("raw", sources.DribbleRaw(pr.data, sched)),
                                      ("buffered", _io.BufferedReader(sources.DribbleRaw(pr.data, sched)))):
                            if T.norm_events(pj.parse(integ, entry, f)) != got:
                                return {"clause": "events-differ", "entry": f"{integ}:{entry}@nonseekable-{nm}", "schedule": sched,
                                        "summary": f"{integ}:{entry}: the stream read from a non-seekable {nm} input (read sizes {sched}) "
                                                   f"parses differently from the same bytes in a BytesIO"}
            except Exception as e:  # noqa: BLE001
                return {"clause": "parser-raised", "entry": f"{integ}:{entry}",
                        "summary": f"{integ}:{entry} raised {type(e).__name__}: {e}"}
            ordered = integ == "generic" or entry == "flat"
            if entry == "flat":
                if got != want:
                    return _diff(integ, entry, got, want)
            elif entry == "to_graph":
                gs = [e for e in got if e[0] == "stmt"]
                if ordered:
                    if gs != want_stmts:
                        return _diff(integ, entry, gs, want_stmts)
                    # generic sink namespaces: dict semantics (last binding of a prefix wins, first position kept)
                    ns_want: dict = {}
                    for e in want:
                        if e[0] == "ns":
                            ns_want[e[1]] = e[2]
                    ns_got = [(e[1], e[2]) for e in got if e[0] == "ns"]
                    if ns_got != list(ns_want.items()):
                        return {"clause": "namespaces-differ", "entry": f"{integ}:{entry}",
                                "summary": f"{integ}:{entry} namespaces {ns_got[:3]} != {list(ns_want.items())[:3]}"}
                elif set(gs) != set(want_stmts):
                    return _diff(integ, entry, sorted(set(gs), key=repr), sorted(set(want_stmts), key=repr), "set")
            else:
                if len(sinks) != len(per_frame):
                    return {"clause": "grouped-sink-count", "entry": f"{integ}:{entry}",
                            "summary": f"{integ}:grouped gave {len(sinks)} sinks for {len(per_frame)} frames"}
                for k, (sts, nss, _m) in enumerate(sinks):
                    w = [e for e in per_frame[k] if e[0] == "stmt"]
                    g = T.norm_events(sts)
                    if (g != w) if integ == "generic" else (set(g) != set(w)):
                        return _diff(integ, f"grouped[frame {k}]", g, w)
    return None


def check_interleaved(mode: str, pr: refenc.Produced):
    """Two lazy flat parsers over the SAME valid bytes (hence identical options), the second started later and both
    stepped alternately: each must still return exactly the intended events."""
    import io
    from pyjelly.integrations.generic import parse as gparse
    from pyjelly.integrations.rdflib import parse as rparse

    want = _expect(pr.events)
    for integ in (["generic"] if mode == "generic" else ["generic", "rdflib"]):
        mod = gparse if integ == "generic" else rparse
        conv = T.event_from_generic if integ == "generic" else T.event_from_rdflib
        a = mod.parse_jelly_flat(io.BytesIO(pr.data))
        b = mod.parse_jelly_flat(io.BytesIO(pr.data))
        out_a, out_b = [], []
        try:
            lag = max(1, len(want) // 3)
            for _ in range(lag):
                x = next(a, None)
                if x is not None:
                    out_a.append(conv(x))
            live = [(a, out_a), (b, out_b)]
            while live:
                for it, out in list(live):
                    x = next(it, None)
                    if x is None:
                        live.remove((it, out))
                    else:
                        out.append(conv(x))
        except Exception as e:  # noqa: BLE001
            return {"clause": "parser-raised", "entry": f"{integ}:flat (two parsers stepped alternately)",
                    "summary": f"{integ}: two lazy parsers over the same valid stream, stepped alternately: {type(e).__name__}: {e}"}
        for name, out in (("first", out_a), ("second", out_b)):
            if T.norm_events(out) != want:
                return {"clause": "events-differ", "entry": f"{integ}:flat (two parsers stepped alternately)",
                        "summary": f"{integ}: the {name} of two alternately stepped parsers over the same valid stream returned "
                                   f"{len(out)} events that differ from the {len(want)} intended ones"}
    return None


def _diff(integ, entry, got, want, how="seq"):
    i = next((k for k, (a, b) in enumerate(zip(got, want)) if a != b), min(len(got), len(want)))
    return {"clause": "events-differ", "entry": f"{integ}:{entry}", "got_at": T.to_json(got[i]) if i < len(got) else None,
            "want_at": T.to_json(want[i]) if i < len(want) else None,
            "summary": f"{integ}:{entry} ({how}) len {len(got)} vs {len(want)}; first diff at {i}: "
                       f"got {got[i] if i < len(got) else None} want {want[i] if i < len(want) else None}"}


def run_shard(ctx):
    i = 0
    used = Counter()
    while not ctx.out_of_time():
        rng = ctx.rng(i)
        i += 1
        mode = "generic" if rng.random() < 0.5 else "rdf11"
        phys, events, options, policy, delimited = make_case(rng, mode, 30 if ctx.tier == "quick" else rng.choice([30, 150]))
        try:
            pr = refenc.produce(rng, events, options, policy, delimited)
        except refenc.InternalProducerError as e:
            ctx.inconc(f"reference producer/decoder disagree: {e}")
            continue
        except refenc.ProducerError:
            ctx.observe("producer-declined (tables too small for a row under the chosen split)")
            continue
        w = check_parsers(mode, pr)
        if w is None and i % 3 == 0:
            w = check_interleaved(mode, pr)
            ctx.observe("interleaved-parser-pairs")
        ctx.observe("streams-parsed")
        for integ in (["generic"] if mode == "generic" else ["generic", "rdflib"]):
            for e in ("flat", "grouped", "to_graph"):
                ctx.observe(f"entry:{integ}:{e}")
        used.update(pr.used)
        kinds = sum(1 for k in ("evict-fifo", "evict-mru", "evict-random", "split-random", "split-none",
                                "split-all-prefix", "explicit-entry-id", "explicit-name-id", "explicit-prefix-id",
                                "early-entry", "redundant-entry", "options-repeat", "empty-frame",
                                "elision-declined", "random-free-slot", "split-graph", "metadata", "empty-graph")
                    if pr.used.get(k))
        if w is not None:
            w.update({"mode": mode, "bytes": pr.data.hex(), "delimited": delimited,
                      "events": T.to_json(events), "policy": policy.__dict__, "options": options})
            ctx.violation(w)
            ctx.case(pr.data.hex()[:64], False)
            continue
        ctx.case(gen.case_hash(pr.data), kinds >= 2,
                 sample={"mode": mode, "options": options, "policy": policy.__dict__, "n_events": len(events),
                         "frames": len(pr.frames), "choices_used": dict(pr.used), "bytes_hex_prefix": pr.data[:48].hex()})
    for k, v in used.items():
        ctx.observe(f"producer-choice:{k}", v)


def replay(w: dict):
    data = bytes.fromhex(w["bytes"])
    events = [tuple(e) if e[0] != "stmt" else ("stmt", tuple(e[1])) for e in T.from_json(w["events"])]
    pr = refenc.Produced(frames=[], rows=[], options=w["options"], delimited=w["delimited"], data=data, events=list(events))
    res = refdec.decode(wire.dec_stream(data, w["delimited"]))
    if res.violation is not None or T.norm_events(res.events) != T.norm_events(events):
        raise RuntimeError("replay file is not a valid stream for the reference decoder")
    return check_parsers(w["mode"], pr) or check_interleaved(w["mode"], pr)


def classify(w: dict):
    # generic integration: received namespace IRI is not a str / equals "<" + sent + ">"
    if w.get("clause") in ("events-differ", "namespaces-differ") and str(w.get("entry", "")).startswith("generic:"):
        g, want = w.get("got_at"), w.get("want_at")
        if g and want and g[0] == "ns" and want[0] == "ns" and g[1] == want[1] and isinstance(g[2], list) \
                and g[2][0] == "bad-iri" and g[2][2] == "<" + want[2] + ">":
            return "C04/generic-namespace-iri-mangled"
    return None
