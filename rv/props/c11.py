"""C11 - streaming: bounded buffering on write, no read-ahead needed on parse."""
from __future__ import annotations

import io
import select
import socket
import threading
import time

from .. import gen, pj, refdec, sources, wire, workloads
from .. import terms as T

from pyjelly.integrations.generic import serialize as gser  # noqa: E402
from pyjelly.integrations.rdflib import serialize as rser  # noqa: E402

ID = "C11"
LEVEL = "exploration"
RULE = ("WRITE: an instrumented statement generator logs PULL(i) before yielding statement i; the consumer logs FRAME(j, rows) "
        "when it receives frame j and stops after k frames (many k) - for Triple/Quad/Graph streams, both integrations, "
        "frame sizes 1..64, logical type FLAT_* or left UNSPECIFIED. From a reference run to the end the reference decoder "
        "gives the row index r_i at which statement i completes. Clause 1: at every PULL(i), i>=2: r_(i-1) - rows already "
        "handed over < frame_size. Clause 2: when the consumer stops after frame j, #PULL == #statements in frames 1..j; no "
        "PULL before the first frame is requested; after stopping (frame iterator closed and dropped) the consumer's next() on ITS "
        "statement iterator must yield statement #PULL+1 - the unconsumed input is still there. The flat_stream_to_file entry points are run against an unbuffered output that "
        "logs WRITE events on the same clock: the bytes of every complete frame must have reached it before the next statement "
        "is pulled; for rdflib Graphs the same through the plugin entry point Graph.serialize(destination=<unbuffered stream>) with a Graph whose "
        "iteration logs the PULLs (never more than 2*frame_size+2 statements pulled without a write in between). PARSE: valid delimited streams are delivered through a source that stalls "
        "forever after frame boundary j (every j): a raw non-seekable object, a BufferedReader around it (the documented "
        "'buffered binary stream', e.g. socket.makefile('rb')), a BufferedRWPair (socket.makefile('rwb')) and an "
        "HTTPResponse-shaped BufferedIOBase, and a real socketpair whose writer thread goes idle; flat and "
        "grouped parsers of both integrations must have yielded every event of frames 1..j before the stall surfaces. "
        "Non-trivial: >= 3 frames and a stop/stall strictly inside the stream; distinct by (kind, configuration, k or j).")
ASSUMPTIONS = [
    "frame_size is the value the caller passed in SerializerOptions, or (a quarter of the cases) to the flow instance handed over in SerializerOptions.flow - a built-in flow class, a user subclass of BoundedFrameFlow, or a user subclass of FrameFlow whose frame_from_bounds() cuts at that many rows",
    "leading empty frames are not counted as 'frame 1' on the parse side: finding the first non-empty frame (options) is by design a read-ahead that withholds no statement",
    "no wall-clock verdicts: the socket source raises Stalled only when the writer has declared itself idle and select() reports nothing readable",
]
ANCHORS = ["pyjelly/serialize/flows.py", "pyjelly/serialize/streams.py", "pyjelly/integrations/generic/serialize.py",
           "pyjelly/integrations/rdflib/serialize.py", "pyjelly/parse/ioutils.py", "pyjelly/integrations/generic/parse.py",
           "pyjelly/integrations/rdflib/parse.py"]
MARKERS = {
    "bounded-flow-emits": ("pyjelly/serialize/flows.py", r"if len\(self\) >= self\.frame_size"),
    "non-seekable-branch": ("pyjelly/parse/ioutils.py", r"if not inp\.seekable\(\)"),
    "split-to-graphs": ("pyjelly/integrations/generic/serialize.py", r"current_sink = GenericStatementSink\(identifier=current_g\)"),
}
REQUIRED_OBSERVED = ["write-runs", "pull-events", "parse-stall-runs", "stall:raw", "stall:buffered", "stall:socket"]
MIN_NONTRIVIAL = 30
MANIFEST = {
    "text": "Event-log monitor at the caller's own iterators: PULL events of an instrumented input generator and FRAME "
            "events of the consumer on one logical clock, checked against row indices from the reference decoder; on the "
            "parse side stalling sources (test doubles and a real socket with an idle writer) show whether frames 1..j are "
            "fully delivered before the parser needs a byte of frame j+1.",
    "note": "Covers the configurations, stop points k and stall points j generated in the run. Logical clock only.",
    "technique": "runtime monitoring: pull/push event-log checker (bounded pending rows, no over-consumption) + stalling byte sources",
}


def plan(tier: str) -> dict:
    return {"shards": 4, "budget_s": 40} if tier == "quick" else {"shards": 16, "budget_s": 300}


# ------------------------------------------------------------------ write side

def make_statements(rng, n: int, arity: int, mode: str):
    v = gen.Vocab(rng, mode, n_ns=2, n_local=6)
    return gen.statements(rng, n, arity, mode, vocab=v)


def frames_iter(integ: str, cfg: dict, stmts_iter, entry: str):
    if cfg.get("flow_instance"):
        # the frame size is given by handing over a flow INSTANCE; options.frame_size keeps its default of 250
        from pyjelly.serialize import flows as F
        if cfg["flow_instance"] in ("user:FrameFlow-subclass", "user:BoundedFrameFlow-subclass"):
            # the documented extension point: the caller's OWN flow class decides when a frame is full
            if cfg["flow_instance"] == "user:FrameFlow-subclass":
                class UserSizedFlow(F.FrameFlow):
                    def __init__(self, *a, n=1, **k):
                        super().__init__(*a, **k)
                        self.n = n

                    def frame_from_bounds(self):
                        return self.to_stream_frame() if len(self) >= self.n else None
                flow = UserSizedFlow(n=cfg["frame_size"], logical_type=pj.FLAT_LOGICAL[cfg["physical"]])
            else:
                class UserBounded(F.BoundedFrameFlow):
                    pass
                flow = UserBounded(frame_size=cfg["frame_size"], logical_type=pj.FLAT_LOGICAL[cfg["physical"]])
            options = pj.make_options(dict(cfg, frame_size=250), flow=flow)
        else:
            cls = getattr(F, cfg["flow_instance"])
            kw = {"frame_size": cfg["frame_size"]}
            if cfg["flow_instance"] == "BoundedFrameFlow":
                kw["logical_type"] = pj.FLAT_LOGICAL[cfg["physical"]]
            options = pj.make_options(dict(cfg, frame_size=250), flow=cls(**kw))
    else:
        options = pj.make_options(cfg)
    mod = gser if integ == "generic" else rser
    if entry == "flat_stream_to_frames":
        return mod.flat_stream_to_frames(stmts_iter, options)
    stream = pj.make_stream({"integration": integ, "physical": cfg["physical"]}, options)
    return mod.stream_frames(stream, stmts_iter)


class _LazyIterator:
    """A hand-written iterator (a database cursor, a message-queue consumer): __iter__/__next__, nothing else."""

    def __init__(self, inner):
        self._inner = inner

    def __iter__(self):
        return self

    def __next__(self):
        return next(self._inner)


def write_run(integ: str, cfg: dict, stmts: list, entry: str, stop_after: int | None):
    """-> (log, frames_bytes list). log entries: ('PULL', i) / ('FRAME', j, nrows)."""
    log: list = []
    conv = T.stmt_to_generic if integ == "generic" else T.stmt_to_rdflib

    def source():
        for i, s in enumerate(stmts, 1):
            log.append(("PULL", i))
            yield conv(s)

    src = source()
    kind = cfg.get("iterator_kind", "generator")
    if kind == "map":
        src = map(lambda x: x, src)                       # lazy, but not a generator object
    elif kind == "iter-callable":
        _end = object()
        _g = src
        src = iter(lambda: next(_g, _end), _end)          # callable_iterator
    elif kind == "iterator-class":
        src = _LazyIterator(src)
    it = frames_iter(integ, cfg, src, entry)
    pulls_before_first_request = sum(1 for e in log if e[0] == "PULL")
    out = []
    j = 0
    if stop_after == 0:
        return log, out, pulls_before_first_request
    for fr in it:
        j += 1
        log.append(("FRAME", j, len(fr.rows)))
        out.append(fr.SerializeToString(deterministic=True))
        if stop_after is not None and j >= stop_after:
            break
    if stop_after is not None and j >= stop_after:
        # the consumer is done with the frame iterator (output rotation, a size limit) and goes on using ITS statement
        # iterator: the statements not consumed so far must still be there
        import gc
        if cfg.get("stop_how", "close") == "close" and hasattr(it, "close"):
            it.close()
        del it
        gc.collect()
        pulled = sum(1 for e in log if e[0] == "PULL")
        try:
            next(src)
            nxt = sum(1 for e in log if e[0] == "PULL")
        except StopIteration:
            nxt = None
        log.append(("RESUME", pulled, nxt))
    return log, out, pulls_before_first_request


def check_write(integ: str, cfg: dict, stmts: list, entry: str, ks: list):
    """-> list of witnesses."""
    ws = []
    try:
        ref_log, ref_frames, _ = write_run(integ, cfg, stmts, entry, None)
    except Exception as e:  # noqa: BLE001
        return [{"clause": "serializer-raised", "summary": f"{type(e).__name__}: {e}"}]
    data = b"".join(wire.enc_varint(len(f)) + f for f in ref_frames)
    res = refdec.decode(wire.dec_stream(data, True))
    if res.violation is not None:
        return []       # validity is C03's question
    # r[i] = global (1-based) row index of statement i's row; statements per frame
    r = {}
    per_frame_stmts = []
    n = 0
    for (kind, *_), (fi, ri, grow) in zip(res.events, res.event_pos):
        if kind == "stmt":
            n += 1
            r[n] = grow
    for evs in res.per_frame:
        per_frame_stmts.append(sum(1 for e in evs if e[0] == "stmt"))
    # A frame that ends with a graph_end row was completed by the *arrival of the next statement* (only then is
    # the graph known to be over): that statement is "the statement that completed the frame".
    dec_frames = wire.dec_stream(data, True)
    ends_with_graph_end = [bool(f["rows"]) and f["rows"][-1][0] == "graph_end" for f in dec_frames]
    if n != len(stmts):
        return []       # e.g. rdflib regrouping dropped duplicates: content is C02/C15's question
    fs = cfg["frame_size"]

    def clause1(log, tag):
        handed = 0
        for ev in log:
            if ev[0] == "FRAME":
                handed += ev[2]
            elif ev[1] >= 2:
                i = ev[1]
                pending = r[i - 1] - handed
                if pending >= fs:
                    return {"clause": "pending-rows-exceed-frame-size", "pull": i, "pending": pending, "run": tag,
                            "summary": f"{integ} {entry} phys={cfg['physical']} logical={cfg['logical']} frame_size={fs}: "
                                       f"{pending} rows pending when statement {i} was requested ({tag})"}
        return None

    w = clause1(ref_log, "run to the end")
    if w:
        ws.append(w)
    for k in ks:
        if k > len(ref_frames):
            continue
        try:
            log, frames, early = write_run(integ, cfg, stmts, entry, k)
        except Exception as e:  # noqa: BLE001
            ws.append({"clause": "serializer-raised", "summary": f"stop after {k}: {type(e).__name__}: {e}"})
            continue
        if early:
            ws.append({"clause": "pull-before-first-frame-requested", "stop_after": k,
                       "summary": f"{early} statements were pulled before the consumer asked for the first frame"})
        if frames != ref_frames[:len(frames)]:
            ws.append({"clause": "frames-not-a-prefix", "stop_after": k,
                       "summary": "frames of the interrupted run are not a prefix of the reference run"})
            continue
        resume = next((e for e in log if e[0] == "RESUME"), None)
        log = [e for e in log if e[0] != "RESUME"]
        if resume is not None:
            log = log[:len(log) - (1 if resume[2] is not None else 0)]        # the PULL made by the resume probe itself
            if resume[1] < len(stmts) and resume[2] != resume[1] + 1:
                ws.append({"clause": "input-lost-after-early-stop", "stop_after": k, "pulls": resume[1],
                           "summary": f"{integ} {entry} phys={cfg['physical']} frame_size={fs}: the consumer stopped after frame {k} "
                                      f"({resume[1]} of {len(stmts)} statements pulled) and asked ITS statement iterator for the next "
                                      f"statement: " + ("the iterator is exhausted/closed" if resume[2] is None else f"got statement {resume[2]}")})
        pulls = sum(1 for e in log if e[0] == "PULL")
        want = sum(per_frame_stmts[:k])
        allowed = want + (1 if ends_with_graph_end[k - 1] and want < len(stmts) else 0)
        if k >= 1 and not (want <= pulls <= allowed):
            ws.append({"clause": "input-consumed-beyond-last-frame", "stop_after": k, "pulls": pulls, "statements_in_frames": want,
                       "summary": f"{integ} {entry} phys={cfg['physical']} frame_size={fs}: consumer stopped after frame {k} "
                                  f"holding {want} statements, but {pulls} statements had been pulled"})
        w = clause1(log, f"stopped after frame {k}")
        if w and not any(x["clause"] == w["clause"] for x in ws):
            ws.append(w)
    return ws


class LoggedRawOut(io.RawIOBase):
    """Unbuffered output (open(..., buffering=0), socket.makefile('wb', 0)) that logs WRITE events on the case's clock."""

    def __init__(self, log: list):
        super().__init__()
        self.log = log
        self.total = 0

    def writable(self):
        return True

    def write(self, b):
        self.total += len(b)
        self.log.append(("WRITE", len(b), self.total))
        return len(b)


def check_plugin_sink(cfg: dict, stmts: list):
    """rdflib's own entry point, Graph.serialize(destination=<unbuffered stream>, format='jelly'): the store's iteration is the
    statement iterator.  A Graph whose triples() logs PULL(i) on the clock the output logs WRITEs on: frames must reach the
    destination while the store is still being iterated - never more than 2*frame_size + 2 statements pulled without a write
    in between (a store has no statement order of its own, so the bound is on the GAP, not on byte positions)."""
    import rdflib
    log: list = []

    class LoggingGraph(rdflib.Graph):
        def triples(self, pattern):
            for i, t in enumerate(super().triples(pattern), 1):
                if pattern == (None, None, None):
                    log.append(("PULL", i))
                yield t

    g = LoggingGraph(bind_namespaces="none")
    for st in stmts:
        g.add(tuple(T.to_rdflib(t) for t in st[:3]))
    n = len(g)
    fs = cfg["frame_size"]
    if n < 3 * fs + 4:
        return []
    out = LoggedRawOut(log)
    try:
        g.serialize(destination=out, format="jelly", options=pj.make_options(dict(cfg, physical=1, logical=1)))
    except Exception as e:  # noqa: BLE001
        return [{"clause": "serializer-raised", "summary": f"{type(e).__name__}: {e}"}]
    pulls = [e for e in log if e[0] == "PULL"]
    if len(pulls) < n:
        return []                     # the store was not iterated through triples((None, None, None)): nothing observed
    gap = 0
    for ev in log:
        if ev[0] == "WRITE":
            gap = 0
        else:
            gap += 1
            if gap > 2 * fs + 2:
                return [{"clause": "frames-not-written-before-next-pull", "pull": ev[1], "plugin": True,
                         "summary": f"rdflib Graph.serialize(destination=<unbuffered stream>, format='jelly'), frame_size={fs}: "
                                    f"{gap} statements were pulled from the store in a row (up to statement {ev[1]} of {n}) without a "
                                    f"single byte reaching the destination"}]
    return []


def check_file_sink(integ: str, cfg: dict, stmts: list):
    """flat_stream_to_file: every frame that is due must have REACHED THE OUTPUT before the next statement is pulled."""
    mod = gser if integ == "generic" else rser
    conv = T.stmt_to_generic if integ == "generic" else T.stmt_to_rdflib
    # reference: frame sizes (bytes incl. length prefix) and the statement that completes each frame
    _log, ref_frames, _ = write_run(integ, cfg, stmts, "flat_stream_to_frames", None)
    data = b"".join(wire.enc_varint(len(f)) + f for f in ref_frames)
    res = refdec.decode(wire.dec_stream(data, True))
    if res.violation is not None:
        return []
    per_frame = [sum(1 for e in evs if e[0] == "stmt") for evs in res.per_frame]
    if sum(per_frame) != len(stmts):
        return []
    sizes = [len(wire.enc_varint(len(f)) + f) for f in ref_frames]
    # after statement i has been consumed, frames 1..done(i) are complete
    done_after = {}
    cum_st, cum_bytes, j = 0, 0, 0
    bytes_after = {0: 0}
    for i in range(1, len(stmts) + 1):
        while j < len(per_frame) and cum_st + per_frame[j] <= i:
            cum_st += per_frame[j]
            cum_bytes += sizes[j]
            j += 1
        bytes_after[i] = cum_bytes
    log: list = []

    def source():
        for i, st in enumerate(stmts, 1):
            log.append(("PULL", i))
            yield conv(st)

    out = LoggedRawOut(log)
    try:
        mod.flat_stream_to_file(source(), out, options=pj.make_options(cfg))
    except Exception as e:  # noqa: BLE001
        return [{"clause": "serializer-raised", "summary": f"{type(e).__name__}: {e}"}]
    written = 0
    for ev in log:
        if ev[0] == "WRITE":
            written = ev[2]
        elif ev[1] >= 2:
            due = bytes_after[ev[1] - 2]      # frames completed by statement i-2 are certainly due at PULL(i)
            if written < due:
                return [{"clause": "frames-not-written-before-next-pull", "pull": ev[1], "written": written, "due": due,
                         "summary": f"{integ} flat_stream_to_file to an unbuffered output, frame_size={cfg['frame_size']}: when statement "
                                    f"{ev[1]} was pulled only {written} of the {due} bytes of the frames already complete had reached the output"}]
    if out.total != sum(sizes):
        return [{"clause": "file-sink-bytes-differ", "summary": f"{out.total} bytes written, frames total {sum(sizes)}"}]
    return []


def write_case(ctx, rng):
    integ = rng.choice(["generic", "rdflib"])
    phys = rng.choice([1, 2, 3])
    arity = 3 if phys == 1 else 4
    mode = "rdf11" if integ == "rdflib" else "generic"
    fs = rng.choice([1, 2, 3, 5, 8, 17, 64])
    n = rng.randint(2 * fs + 2, 4 * fs + 12)
    stmts = make_statements(rng, min(n, 120), arity, mode)
    entry = "stream_frames" if phys == 3 else rng.choice(["flat_stream_to_frames", "stream_frames"])
    logical = rng.choice([pj.FLAT_LOGICAL[phys], pj.FLAT_LOGICAL[phys], 0])
    cfg = {"physical": phys, "frame_size": fs, "preset": gen.preset_for(rng, stmts, phys), "logical": logical,
           "delimited": True, "generalized": mode == "generic", "rdf_star": mode == "generic"}
    if rng.random() < .3:
        # the statements come from a lazy iterator that is not a generator object
        cfg["iterator_kind"] = rng.choice(["map", "iter-callable", "iterator-class"])
        ctx.observe(f"write:input-iterator:{cfg['iterator_kind']}")
    if rng.random() < .25:
        cfg["flow_instance"] = rng.choice(["FlatTriplesFrameFlow" if phys == 1 else "FlatQuadsFrameFlow", "BoundedFrameFlow",
                                           "user:FrameFlow-subclass", "user:BoundedFrameFlow-subclass"])
        ctx.observe(f"write:flow-instance:{cfg['flow_instance']}")
        cfg["logical"] = pj.FLAT_LOGICAL[phys]
        logical = cfg["logical"]
        ctx.observe("write:frame-size-through-flow-instance")
    ks = sorted({1, 2, rng.randint(1, 6), rng.randint(2, 12)})
    ws = check_write(integ, cfg, stmts, entry, ks)
    ctx.observe("write-runs", 1 + len(ks))
    ctx.observe("pull-events", len(stmts) * 2)
    ctx.observe(f"write:{integ}:phys{phys}:{'unspecified-logical' if logical == 0 else 'flat-logical'}")
    if phys != 3 and logical != 0 and not cfg.get("flow_instance"):
        fs_ws = check_file_sink(integ, cfg, stmts)
        if integ == "rdflib" and phys == 1:
            fs_ws = fs_ws + check_plugin_sink(cfg, stmts)
            ctx.observe("plugin-sink-runs")
        ctx.observe("file-sink-runs")
        for w in fs_ws:
            w["file_sink"] = True
        ws = ws + fs_ws
    for w in ws:
        if w["clause"] == "serializer-raised":
            ctx.observe("serializer-raised (not judged here)")
            continue
        w.update({"side": "write", "integration": integ, "cfg": cfg, "entry": entry, "stmts": T.to_json(stmts), "ks": ks})
        ctx.violation(w)
    for k in ks:
        ctx.case(("w", integ, phys, fs, logical, entry, k, len(stmts)), len(stmts) >= 3 * 1 and k >= 1,
                 sample={"side": "write", "integration": integ, "physical": phys, "frame_size": fs, "logical": logical,
                         "entry": entry, "stop_after_frames": k, "statements": len(stmts)})


# ------------------------------------------------------------------ parse side

class IdleSocketRaw(io.RawIOBase):
    """Raw reader over a real socket; raises Stalled instead of blocking once the writer is idle."""

    def __init__(self, sock: socket.socket, idle: threading.Event):
        super().__init__()
        self.sock = sock
        self.idle = idle
        self.log: list = []

    def readable(self):
        return True

    def seekable(self):
        return False

    def readinto(self, b):
        deadline = time.monotonic() + 20
        while True:
            rd, _, _ = select.select([self.sock], [], [], 0)
            if rd:
                n = self.sock.recv_into(b)
                self.log.append((len(b), n))
                return n
            if self.idle.is_set():
                rd, _, _ = select.select([self.sock], [], [], 0)
                if rd:
                    continue
                self.log.append((len(b), -1))
                raise sources.Stalled("writer idle, nothing buffered")
            if time.monotonic() > deadline:
                raise TimeoutError("socket writer neither delivered nor went idle (watchdog)")
            time.sleep(0.0002)


class _NullWriter(io.RawIOBase):
    def writable(self):
        return True

    def write(self, b):
        return len(b)


class _ResponseLike(io.BufferedIOBase):
    """Shaped like http.client.HTTPResponse: a non-seekable BufferedIOBase with read/readinto/read1/peek."""

    def __init__(self, fp):
        self.fp = fp

    def readable(self):
        return True

    def seekable(self):
        return False

    def read(self, n=-1):
        return self.fp.read(n)

    def read1(self, n=-1):
        return self.fp.read1(n)

    def readinto(self, b):
        return self.fp.readinto1(b)

    def peek(self, n=0):
        return self.fp.peek(n)


class _DuckBlockingReader:
    """A duck-typed non-seekable IO[bytes] that offers ONLY read() and seekable() (a thin wrapper around a socket file,
    urllib3 1.x's resp.raw): read(n) blocks until n bytes are there (or end of stream) - here 'would block' raises Stalled."""

    def __init__(self, data: bytes, limit: int):
        self._data, self._limit, self._pos = data, limit, 0

    def seekable(self):
        return False

    def read(self, n=-1):
        if n is None or n < 0 or self._pos + n > self._limit:
            raise sources.Stalled(f"read({n}) at {self._pos} needs bytes beyond the {self._limit} delivered")
        out = self._data[self._pos:self._pos + n]
        self._pos += n
        return out


def stall_source(kind: str, data: bytes, limit: int, rng):
    """-> (file object, cleanup)"""
    if kind == "duck-blocking-read":
        return _DuckBlockingReader(data, limit), lambda: None
    if kind in ("seekable-raw", "seekable-raw-buffered"):
        # a SEEKABLE unbuffered raw object - open(path, 'rb', buffering=0) on a file another process is still appending to:
        # bytes past what has been written so far have simply not arrived
        class SeekableStallRaw(sources.StallRaw):
            def seekable(self):
                return True

            def tell(self):
                return self.pos

            def seek(self, offset, whence=0):
                self.pos = {0: offset, 1: self.pos + offset, 2: self.limit + offset}[whence]
                return self.pos
        raw = SeekableStallRaw(data, limit)       # (whole reads, as a file object gives them; the stall sits on a frame boundary)
        return (raw if kind == "seekable-raw" else io.BufferedReader(raw)), lambda: None
    if kind == "raw":
        return sources.StallRaw(data, limit, chunk=rng.choice([1 << 30, 7, 64])), lambda: None
    if kind == "buffered":
        return io.BufferedReader(sources.StallRaw(data, limit, chunk=rng.choice([1 << 30, 7, 64]))), lambda: None
    if kind == "rwpair":
        # what socket.makefile("rwb") is: a BufferedIOBase that is not a BufferedReader
        return io.BufferedRWPair(sources.StallRaw(data, limit, chunk=rng.choice([1 << 30, 7, 64])), _NullWriter()), lambda: None
    if kind == "response-like":
        return _ResponseLike(io.BufferedReader(sources.StallRaw(data, limit, chunk=rng.choice([1 << 30, 64])))), lambda: None
    a, b = socket.socketpair()
    idle = threading.Event()

    def run():
        try:
            pos = 0
            while pos < limit:
                k = rng.choice([1, 3, 50, 1 << 20])
                a.sendall(data[pos:min(limit, pos + k)])
                pos += k
        finally:
            idle.set()

    t = threading.Thread(target=run, daemon=True)
    t.start()
    raw = IdleSocketRaw(b, idle)
    f = raw if kind == "socket-raw" else io.BufferedReader(raw)

    def cleanup():
        t.join(timeout=5)
        a.close()
        b.close()
    return f, cleanup


def parse_case(ctx, rng):
    mode = "rdf11" if rng.random() < .4 else "generic"
    vs = workloads.valid_stream(rng, mode=mode, delimited=True, max_len=14, min_frames=3)
    if vs is None:
        return
    data, frames = vs["data"], vs["frames"]
    res = refdec.decode(frames)
    if res.violation is not None:
        ctx.inconc("generated stream invalid for the reference decoder")
        return
    integs = ["generic"] if mode == "generic" else ["generic", "rdflib"]
    first_nonempty = next(i for i, f in enumerate(frames) if f["rows"])
    cum = []
    tot = 0
    for evs in res.per_frame:
        tot += len(evs)
        cum.append(tot)
    all_events = T.norm_events(res.events)
    h = gen.case_hash(data)
    js = [j for j in range(first_nonempty + 1, len(frames))]   # stall after frame j (1-based), strictly inside
    rng.shuffle(js)
    for j in js[: 6 if ctx.tier == "quick" else 30]:
        limit = frames[j - 1]["span"][1]
        for kind in ("raw", "buffered", rng.choice(["rwpair", "response-like", "duck-blocking-read"]),
                     rng.choice(["socket-raw", "socket-buffered"]), rng.choice(["seekable-raw", "seekable-raw-buffered"])):
            for integ in integs:
                entry = rng.choice(["flat", "flat", "grouped", "to_graph"])
                f, cleanup = stall_source(kind, data, limit, rng)
                got = []
                exc = None
                try:
                    if entry == "flat":
                        evs, exc = pj.run_flat_collect(integ, f)
                        got = T.norm_events(evs)
                    elif entry == "to_graph":
                        # the sink-filling entry point: what has reached the CALLER'S store when the source stalls
                        held = []
                        try:
                            if integ == "generic":
                                from pyjelly.integrations.generic import parse as _gp
                                from pyjelly.integrations.generic.generic_sink import GenericStatementSink

                                def _sf():
                                    held.append(GenericStatementSink())
                                    return held[-1]
                                _gp.parse_jelly_to_graph(f, sink_factory=_sf)
                            else:
                                import rdflib
                                from pyjelly.integrations.rdflib import parse as _rp

                                def _gf():
                                    held.append(rdflib.Graph(bind_namespaces="none"))
                                    return held[-1]

                                def _df():
                                    held.append(rdflib.Dataset(default_union=False))
                                    return held[-1]
                                _rp.parse_jelly_to_graph(f, graph_factory=_gf, dataset_factory=_df)
                        except Exception as e:  # noqa: BLE001
                            exc = e
                        for store in held:
                            if integ == "generic":
                                got.extend(T.norm_events([T.event_from_generic(x) for x in store]))
                            else:
                                got.extend(T.norm_events([("stmt", x) for x in T.rdflib_store_statements(store)]))
                    else:
                        try:
                            for sts, nss, _m in pj.iter_grouped(integ, f):
                                got.extend(T.norm_events(sts))
                        except Exception as e:  # noqa: BLE001
                            exc = e
                finally:
                    cleanup()
                ctx.observe("parse-stall-runs")
                ctx.observe(f"stall:{kind.split('-')[0]}")
                if isinstance(exc, TimeoutError):
                    ctx.inconc(f"socket watchdog fired: {exc}")
                    continue
                want = all_events[:cum[j - 1]]
                if entry in ("grouped", "to_graph"):
                    want = [e for e in want if e[0] == "stmt"]
                w = None
                ok = (got == want) if not (entry == "to_graph" or (entry == "grouped" and integ == "rdflib")) else (set(got) == set(want))
                if not isinstance(exc, sources.Stalled):
                    w = {"clause": "no-stall-observed", "summary": f"{integ}:{entry} over {kind}: expected the source to stall, got "
                                                                   f"{type(exc).__name__ if exc else 'normal end'}: {exc}"}
                elif not ok:
                    w = {"clause": "frames-not-delivered-before-stall",
                         "summary": f"{integ}:{entry} over {kind}: bytes of frames 1..{j} ({limit} bytes) had arrived, frames hold "
                                    f"{len(want)} events, parser had yielded {len(got)} when it asked for more bytes"}
                if w:
                    w.update({"side": "parse", "source": kind, "integration": integ, "entry": entry, "stall_after_frame": j,
                              "limit": limit, "bytes": data.hex(), "yielded": len(got), "expected": len(want)})
                    ctx.violation(w)
                ctx.case(("p", h, kind, integ, entry, j), len(frames) >= 3,
                         sample={"side": "parse", "source": kind, "integration": integ, "entry": entry,
                                 "frames": len(frames), "stall_after_frame": j, "events_expected": len(want)})


def run_shard(ctx):
    i = 0
    while not ctx.out_of_time():
        rng = ctx.rng(i)
        i += 1
        if i % 2:
            write_case(ctx, rng)
        else:
            parse_case(ctx, rng)


def replay(w: dict):
    if w.get("side") == "write":
        cfg = w["cfg"]
        cfg["preset"] = tuple(cfg["preset"])
        stmts = list(T.from_json(w["stmts"]))
        if w.get("plugin"):
            return next(iter(check_plugin_sink(cfg, stmts)), None)
        if w.get("file_sink"):
            return next(iter(check_file_sink(w["integration"], cfg, stmts)), None)
        for x in check_write(w["integration"], cfg, stmts, w["entry"], w["ks"]):
            if x["clause"] == w["clause"]:
                return x
        return None
    import random
    data = bytes.fromhex(w["bytes"])
    f, cleanup = stall_source(w["source"], data, w["limit"], random.Random(0))
    try:
        if w["entry"] == "flat":
            evs, exc = pj.run_flat_collect(w["integration"], f)
            n = len(evs)
        else:
            n = 0
            exc = None
            try:
                for sts, _n, _m in pj.iter_grouped(w["integration"], f):
                    n += len(sts)
            except Exception as e:  # noqa: BLE001
                exc = e
    finally:
        cleanup()
    if n < w["expected"] or not isinstance(exc, sources.Stalled):
        return {"clause": w["clause"], "summary": f"yielded {n} of {w['expected']} before {type(exc).__name__}"}
    return None


def classify(w: dict):
    c = w.get("clause")
    if w.get("side") == "write":
        cfg = w["cfg"]
        if c == "pending-rows-exceed-frame-size" and cfg["logical"] == 0 and w.get("pending", 10 ** 9) < 250 + 30:
            return "C11/frame-size-ignored-unspecified-logical"
        if cfg["physical"] == 3 and c in ("input-consumed-beyond-last-frame", "pending-rows-exceed-frame-size"):
            if w["integration"] == "generic":
                return "C11/graphs-physical-read-ahead/generic"
            return "C11/graphs-physical-read-ahead/rdflib-materialises"
        return None
    if c == "frames-not-delivered-before-stall" and w.get("source") in ("buffered", "socket-buffered", "rwpair", "response-like") \
            and w.get("yielded") == 0:
        return "C11/double-buffered-non-seekable"
    return None
