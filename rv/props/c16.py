"""C16 - spec-violating streams are rejected, never turned into fabricated data."""
from __future__ import annotations

import copy
import io

from .. import gen, pj, refdec, refenc, wire
from .. import terms as T

ID = "C16"
LEVEL = "fault_enumeration"
RULE = ("valid reference-producer streams; for each catalogued violation class, one violation is injected at EVERY eligible "
        "position (row x term x nesting path) of the stream (judged in shuffled order within one process); a mutant is kept only if the reference decoder reports exactly "
        "that class at exactly that row. Oracle: flat parsers of both integrations raise an Exception and what they "
        "yielded before is a prefix of the reference decoder's events before the offending row; grouped and to_graph "
        "raise. Non-trivial: every kept mutant; distinct by (class, position-kind, bytes).")
ASSUMPTIONS = [
    "a mutant the reference decoder does not classify as the intended violation at the intended row is discarded (counted)",
    "checks run under the normal interpreter (assert statements active): pyjelly rejects some headers through assert",
]
ANCHORS = ["pyjelly/parse/decode.py", "pyjelly/parse/lookup.py", "pyjelly/parse/ioutils.py",
           "pyjelly/integrations/generic/parse.py", "pyjelly/integrations/rdflib/parse.py", "pyjelly/options.py"]
MARKERS = {
    "reader-unfilled-slot-guard": ("pyjelly/parse/lookup.py", r"invalid resolved index"),
    "reader-datatype-zero-guard": ("pyjelly/parse/lookup.py", r"0 is not a valid datatype term index"),
    "reader-missing-repeated-term": ("pyjelly/parse/decode.py", r"missing repeated term"),
    "reader-quoted-repeat-guard": ("pyjelly/parse/decode.py", r"repeated terms are not allowed in quoted triples"),
}
REQUIRED_OBSERVED = ["mutants-kept", "mutants-judged:generic"]
MIN_NONTRIVIAL = 20
MANIFEST = {
    "category": "fault_enumeration",
    "text": "Enumerates every injection position of each catalogued spec violation in generated valid streams (confirmed "
            "invalid, with class and row, by the independent decoder) and observes whether the real parsers raise at or "
            "before that row without delivering anything the valid prefix does not contain.",
    "note": "Trusted base: rv.refdec's classification of the mutant. Classes: entry id / name / prefix / datatype reference "
            "beyond size (incl. zero-form overflow), unfilled slot, datatype 0, datatype or prefix reference with disabled "
            "table, repeat without previous, repeat in quoted triple, missing options, forbidden row kind, triple outside "
            "graph, version > 2, physical type 0/unknown (in the first and in repeated options rows).",
    "technique": "runtime monitoring with fault injection: enumerated stream mutations judged by a reference decoder, prefix oracle on yielded items",
}

CLASS_KINDS = {
    "entry-id-beyond-size": {"entry-id-out-of-range"},
    "entry-for-disabled-table": {"entry-id-out-of-range"},
    "name-ref-beyond-size": {"name-ref-out-of-range"},
    "name-zero-form-overflow": {"name-ref-out-of-range"},
    "prefix-ref-beyond-size": {"prefix-ref-out-of-range"},
    "prefix-ref-disabled-table": {"prefix-ref-out-of-range"},
    "datatype-ref-beyond-size": {"datatype-ref-out-of-range"},
    "name-ref-unfilled": {"name-ref-unfilled"},
    "prefix-ref-unfilled": {"prefix-ref-unfilled"},
    "datatype-ref-unfilled": {"datatype-ref-unfilled"},
    "datatype-ref-zero": {"datatype-ref-zero"},
    "datatype-ref-disabled-table": {"datatype-table-disabled"},
    "repeat-without-previous": {"repeat-without-previous"},
    "repeat-in-quoted-triple": {"quoted-incomplete"},
    "missing-options": {"missing-options"},
    "forbidden-row-kind": {"row-kind-forbidden"},
    "triple-outside-graph": {"triple-outside-graph"},
    "graph-start-without-term": {"graph-start-without-term"},
    "unsupported-version": {"bad-version"},
    "unsupported-physical-type": {"bad-physical-type"},
    "unsupported-version-in-repeated-options": {"options-changed"},
    "unsupported-type-in-repeated-options": {"options-changed"},
}


def plan(tier: str) -> dict:
    return {"shards": 6, "budget_s": 40} if tier == "quick" else {"shards": 16, "budget_s": 500}


# ------------------------------------------------------------------ row surgery

def term_paths(body: dict, slots: str):
    """Yield (path, term) for every term in a row body, depth first (path = list of keys)."""
    for slot in slots:
        t = body.get(slot)
        if t is None:
            continue
        yield from _term_paths(t, [slot])


def _term_paths(t, path):
    yield path, t
    if t[0] == "triple":
        for slot in "spo":
            sub = t[1].get(slot)
            if sub is not None:
                yield from _term_paths(sub, path + [slot])


def set_path(body: dict, path: list, new_term):
    """Return a deep copy of body with the term at path replaced (None removes it)."""
    body = copy.deepcopy(body)
    cur = body
    for k in path[:-1]:
        t = cur[k]
        inner = dict(t[1])
        cur[k] = ("triple", inner)
        cur = inner
    if new_term is None:
        cur.pop(path[-1], None)
    else:
        cur[path[-1]] = new_term
    return body


def row_slots(kind: str) -> str:
    return {"triple": "spo", "quad": "spog", "graph_start": "g", "namespace": "value"}.get(kind, "")


def body_terms(kind: str, body: dict):
    if kind == "namespace":
        v = body.get("value")
        if v is not None:
            yield ["value"], v
    else:
        yield from term_paths(body, row_slots(kind))


class Stream:
    """Mutable view of a produced stream: list of frames, each a list of rows."""

    def __init__(self, frames):
        self.frames = [{"rows": list(f["rows"]), "metadata": list(f.get("metadata", []))} for f in frames]

    def positions(self):
        for fi, f in enumerate(self.frames):
            for ri, row in enumerate(f["rows"]):
                yield fi, ri, row

    def replaced(self, fi, ri, new_row):
        s = Stream(self.frames)
        s.frames[fi]["rows"][ri] = new_row
        return s

    def inserted(self, fi, ri, new_row):
        s = Stream(self.frames)
        s.frames[fi]["rows"].insert(ri, new_row)
        return s

    def deleted(self, fi, ri):
        s = Stream(self.frames)
        del s.frames[fi]["rows"][ri]
        return s


def position_kind(stream: Stream, fi: int, ri: int, path, evicted_before: bool) -> str:
    first_nonempty = next((i for i, f in enumerate(stream.frames) if f["rows"]), 0)
    k = "first-frame" if fi == first_nonempty else "later-frame"
    if path is not None and len(path) > 1:
        k += "/in-quoted-triple"
    if evicted_before:
        k += "/after-eviction"
    return k


# ------------------------------------------------------------------ mutant enumeration

def mutants(stream: Stream, opt: dict, rng):
    """Yield (class, (fi, ri), path, mutated Stream)."""
    N, P, D = opt["max_name_table_size"], opt["max_prefix_table_size"], opt["max_datatype_table_size"]
    phys = opt["physical_type"]
    sizes = {"name": N, "prefix": P, "datatype": D}
    first_stmt_seen = False
    for fi, ri, row in stream.positions():
        kind, body = row
        # ---- header
        if kind == "options" and (fi, ri) == next(((a, b) for a, b, r in stream.positions()), None):
            for v in (3, 4, 255):
                yield "unsupported-version", (fi, ri), None, stream.replaced(fi, ri, ("options", {**body, "version": v}))
            for pt in (0, 4, 7):
                yield "unsupported-physical-type", (fi, ri), None, stream.replaced(fi, ri, ("options", {**body, "physical_type": pt}))
            yield "missing-options", (fi, ri), None, stream.deleted(fi, ri)
            if len(stream.frames[fi]["rows"]) > ri + 1:
                s = Stream(stream.frames)
                rows = s.frames[fi]["rows"]
                rows[ri], rows[ri + 1] = rows[ri + 1], rows[ri]
                yield "missing-options", (fi, ri), None, s
            continue
        if kind == "options":
            # a later (repeated) options row that announces another version / stream type than the first one
            for v in (3, 255):
                yield "unsupported-version-in-repeated-options", (fi, ri), None, stream.replaced(fi, ri, ("options", {**body, "version": v}))
            for pt in (0, 7):
                yield "unsupported-type-in-repeated-options", (fi, ri), None, stream.replaced(fi, ri, ("options", {**body, "physical_type": pt}))
            continue
        # ---- entries
        if kind in sizes:
            size = sizes[kind]
            for k in (1, rng.randint(2, 1000)):
                yield "entry-id-beyond-size", (fi, ri), None, stream.replaced(fi, ri, (kind, {**body, "id": size + k}))
        if kind in ("triple", "quad", "graph_start", "namespace") and P == 0 and rng.random() < .3:
            yield "entry-for-disabled-table", (fi, ri), None, stream.inserted(fi, ri, ("prefix", {"id": 1, "value": "http://x/"}))
        if kind in ("triple", "quad", "graph_start", "namespace") and D == 0 and rng.random() < .3:
            yield "entry-for-disabled-table", (fi, ri), None, stream.inserted(fi, ri, ("datatype", {"id": 0, "value": "http://x/dt"}))
        # ---- term references
        if kind in ("triple", "quad", "graph_start", "namespace"):
            for path, t in body_terms(kind, body):
                def rep(new_t, _path=path):
                    return stream.replaced(fi, ri, (kind, set_path(body, _path, new_t)))
                if t[0] == "iri":
                    _, pid, nid = t
                    yield "name-ref-beyond-size", (fi, ri), path, rep(("iri", pid, N + rng.choice([1, 1, 7, 100000])))
                    if nid != 0:
                        yield "name-zero-form-overflow", (fi, ri), path, rep(("iri", pid, 0))
                    yield "name-ref-unfilled", (fi, ri), path, rep(("iri", pid, N))
                    if N >= 3 and rng.random() < .5:
                        # a table filled SPARSELY (legal): the top slot is assigned right before this row, and the row refers to
                        # the never-assigned slot just below it - a gap under the highest assigned id
                        s2 = stream.inserted(fi, ri, ("name", {"id": N, "value": "gapfill"}))
                        yield "name-ref-unfilled", (fi, ri + 1), path, s2.replaced(fi, ri + 1, (kind, set_path(body, path, ("iri", pid, N - 1))))
                    if P:
                        yield "prefix-ref-beyond-size", (fi, ri), path, rep(("iri", P + rng.choice([1, 1, 9, 70000]), nid))
                        yield "prefix-ref-unfilled", (fi, ri), path, rep(("iri", P, nid))
                        if P >= 3 and rng.random() < .5:
                            s2 = stream.inserted(fi, ri, ("prefix", {"id": P, "value": "http://gapfill/"}))
                            yield "prefix-ref-unfilled", (fi, ri + 1), path, s2.replaced(fi, ri + 1, (kind, set_path(body, path, ("iri", P - 1, nid))))
                    else:
                        yield "prefix-ref-disabled-table", (fi, ri), path, rep(("iri", rng.choice([1, 2, 50]), nid))
                elif t[0] == "lit":
                    _, lex, lk, payload = t
                    if lk == "dt":
                        yield "datatype-ref-beyond-size", (fi, ri), path, rep(("lit", lex, "dt", D + rng.choice([1, 1, 5, 99999])))
                        yield "datatype-ref-unfilled", (fi, ri), path, rep(("lit", lex, "dt", D))
                        if D >= 3 and rng.random() < .5:
                            s2 = stream.inserted(fi, ri, ("datatype", {"id": D, "value": "http://gapfill/dt"}))
                            yield "datatype-ref-unfilled", (fi, ri + 1), path, s2.replaced(fi, ri + 1, (kind, set_path(body, path, ("lit", lex, "dt", D - 1))))
                        yield "datatype-ref-zero", (fi, ri), path, rep(("lit", lex, "dt", 0))
                    elif lk == "simple":
                        if D == 0:
                            yield "datatype-ref-disabled-table", (fi, ri), path, rep(("lit", lex, "dt", rng.choice([1, 1, 3])))
                        else:
                            yield "datatype-ref-zero", (fi, ri), path, rep(("lit", lex, "dt", 0))
                elif t[0] == "triple":
                    for slot in "spo":
                        if t[1].get(slot) is not None:
                            yield "repeat-in-quoted-triple", (fi, ri), path + [slot], \
                                stream.replaced(fi, ri, (kind, set_path(body, path + [slot], None)))
        # ---- statements
        if kind in ("triple", "quad"):
            if not first_stmt_seen:
                first_stmt_seen = True
                for slot in row_slots(kind):
                    if body.get(slot) is not None:
                        yield "repeat-without-previous", (fi, ri), [slot], \
                            stream.replaced(fi, ri, (kind, set_path(body, [slot], None)))
            # forbidden row kinds
            if kind == "triple" and phys == 1:
                q = dict(body)
                q.setdefault("g", ("default",))
                yield "forbidden-row-kind", (fi, ri), None, stream.replaced(fi, ri, ("quad", q))
                yield "forbidden-row-kind", (fi, ri), None, stream.inserted(fi, ri, ("graph_start", {"g": ("default",)}))
                yield "forbidden-row-kind", (fi, ri), None, stream.inserted(fi, ri, ("graph_end", {}))
            if kind == "quad":
                tb = {k: v for k, v in body.items() if k != "g"}
                yield "forbidden-row-kind", (fi, ri), None, stream.replaced(fi, ri, ("triple", tb))
                yield "forbidden-row-kind", (fi, ri), None, stream.inserted(fi, ri, ("graph_start", {"g": ("bnode", "x")}))
                yield "forbidden-row-kind", (fi, ri), None, stream.inserted(fi, ri, ("graph_end", {}))
            if kind == "triple" and phys == 3:
                q = dict(body)
                q["g"] = ("default",)
                yield "forbidden-row-kind", (fi, ri), None, stream.replaced(fi, ri, ("quad", q))
                # a graph_end in front of this triple leaves it outside any graph
                yield "triple-outside-graph", (fi, ri + 1), None, stream.inserted(fi, ri, ("graph_end", {}))
        if kind == "graph_start":
            # a graph start that names no graph at all (the oneof is unset): the format has no "same graph as before" for it
            yield "graph-start-without-term", (fi, ri), ["g"], stream.replaced(fi, ri, (kind, set_path(body, ["g"], None)))
            # dropping the graph start leaves the following triple outside a graph
            nxt = _next_row(stream, fi, ri)
            if nxt is not None and nxt[2][0] == "triple":
                tgt = (nxt[0], nxt[1] - (1 if nxt[0] == fi else 0))
                yield "triple-outside-graph", tgt, None, stream.deleted(fi, ri)


def _next_row(stream: Stream, fi: int, ri: int):
    started = False
    for a, b, r in stream.positions():
        if started:
            return a, b, r
        if (a, b) == (fi, ri):
            started = True
    return None


# ------------------------------------------------------------------ oracle

def judge(integ: str, data: bytes, delimited: bool, valid_prefix: list):
    """-> witness or None."""
    got, exc = pj.run_flat_collect(integ, io.BytesIO(data))
    got_n = T.norm_events(got)
    n = len(got_n)
    if got_n != valid_prefix[:n] or n > len(valid_prefix):
        i = next((k for k, (a, b) in enumerate(zip(got_n, valid_prefix)) if a != b), min(n, len(valid_prefix)))
        return {"clause": "fabricated-item", "entry": f"{integ}:flat",
                "fabricated": T.to_json(got_n[i]) if i < n else None,
                "summary": f"{integ}:flat yielded {got_n[i] if i < n else None} at position {i}; the valid prefix has "
                           f"{valid_prefix[i] if i < len(valid_prefix) else 'nothing (stream is invalid from here)'}"}
    if exc is None:
        return {"clause": "accepted", "entry": f"{integ}:flat",
                "summary": f"{integ}:flat completed normally on an invalid stream ({n} items yielded)"}
    for entry in ("grouped", "to_graph"):
        try:
            pj.parse(integ, entry, data)
        except Exception:  # noqa: BLE001
            continue
        return {"clause": "accepted", "entry": f"{integ}:{entry}",
                "summary": f"{integ}:{entry} completed normally on an invalid stream"}
    return None


def run_case(ctx, rng, mode: str):
    phys = rng.choice([1, 2, 3])
    arity = 3 if phys == 1 else 4
    stmts = gen.statements(rng, rng.randint(2, 14), arity, mode)
    if mode == "generic" and rng.random() < .5 and not any(t[0] == "triple" for s in stmts for t in s):
        v = gen.Vocab(rng, "generic")
        stmts.insert(rng.randint(0, len(stmts)), tuple([v.quoted(1)] + [v.term(s) for s in "pog"[:arity - 1]]))
    events = [("stmt", s) for s in stmts]
    if rng.random() < .3:
        events.insert(0, ("ns", "ex", "http://ex.org/ns/"))
    sizes = list(refenc.sizes_for(rng, events, phys))
    if rng.random() < .5:   # small tables, so that "table not yet full" and "after eviction" both occur
        sizes[0] = max(8, min(sizes[0], 12))
    has_dt = any(t[0] == "lit" and t[3] and not t[2] for e in events if e[0] == "stmt" for top in e[1] for t in T.iter_terms(top))
    if not has_dt and rng.random() < .6:
        sizes[2] = 0
    options = refenc.make_options(rng, phys, tuple(sizes), any(e[0] == "ns" for e in events))
    policy = refenc.Policy.random(rng) if rng.random() < .5 else refenc.Policy(frame_cut="random")
    policy.p_options_repeat = rng.choice([0.0, 0.25])
    try:
        pr = refenc.produce(rng, events, options, policy, delimited=rng.random() < .85)
    except refenc.InternalProducerError as e:
        ctx.inconc(f"reference producer/decoder disagree: {e}")
        return
    except refenc.ProducerError:
        ctx.observe("producer-declined")
        return
    base = Stream(pr.frames)
    integrations = ["generic"] if mode == "generic" else ["generic", "rdflib"]
    # rows at which an eviction already happened (for position kinds)
    # judged in a PRNG-chosen order: parses that fail in the middle of a graph / statement then precede other mutants of
    # the same stream (same options), so state wrongly kept between parses of one process becomes visible
    todo = list(mutants(base, options, rng))
    rng.shuffle(todo)
    for cls, target, path, mutant in todo:
        ctx.observe(f"mutants-generated:{cls}")
        frames = mutant.frames
        res = refdec.decode(frames, strict_graphs=True)
        v = res.violation
        if v is None or v.kind not in CLASS_KINDS[cls] or (v.frame, v.row) != tuple(target):
            ctx.observe(f"mutants-discarded:{cls}")
            continue
        try:
            data = wire.enc_stream(frames, pr.delimited)
        except ValueError:
            ctx.observe(f"mutants-discarded:{cls}")
            continue
        ctx.observe("mutants-kept")
        ctx.observe(f"mutants-kept:{cls}")
        evicted = (res.counters["name-eviction"] + res.counters["prefix-eviction"] + res.counters["datatype-eviction"]) > 0
        pk = position_kind(mutant, target[0], target[1], path, evicted)
        ctx.observe(f"position:{cls}:{pk}")
        valid_prefix = T.norm_events(res.events)
        for integ in integrations:
            ctx.observe(f"mutants-judged:{integ}")
            w = judge(integ, data, pr.delimited, valid_prefix)
            if w is not None:
                w.update({"class": cls, "position_kind": pk, "refdec": str(v), "bytes": data.hex(),
                          "delimited": pr.delimited, "mode": mode, "target": list(target),
                          "valid_prefix_len": len(valid_prefix)})
                ctx.violation(w)
        ctx.case((cls, pk, gen.case_hash(data)), True,
                 sample={"class": cls, "position_kind": pk, "refdec_says": str(v), "bytes_hex": data.hex()[:160]})


def child_case(ctx, rng, k):
    run_case(ctx, rng, "generic" if rng.random() < .5 else "rdf11")


def run_shard(ctx):
    if ctx.shard == 0:
        # the same enumeration in an interpreter started with -O: rejecting a stream must not hinge on an assert
        from .. import childopt
        childopt.run(ctx, ID, 12 if ctx.tier == "quick" else 60)
    i = 0
    while not ctx.out_of_time():
        rng = ctx.rng(i)
        i += 1
        run_case(ctx, rng, "generic" if rng.random() < .5 else "rdf11")


def replay(w: dict):
    data = bytes.fromhex(w["bytes"])
    frames = wire.dec_stream(data, w["delimited"])
    res = refdec.decode(frames, strict_graphs=True)
    if res.violation is None:
        raise RuntimeError("replay stream is valid for the reference decoder")
    valid_prefix = T.norm_events(res.events)
    for integ in (["generic"] if w["mode"] == "generic" else ["generic", "rdflib"]):
        r = judge(integ, data, w["delimited"], valid_prefix)
        if r is not None:
            return r
    return None


def classify(w: dict):
    cls = w.get("class")
    if cls == "datatype-ref-disabled-table" and w.get("clause") in ("accepted", "fabricated-item"):
        f = w.get("fabricated")
        if w["clause"] == "accepted" or _has_plain_literal(f):
            return "C16/datatype-with-disabled-table"
    if cls == "triple-outside-graph" and w.get("clause") in ("accepted", "fabricated-item"):
        f = w.get("fabricated")
        if w["clause"] == "accepted" or (f and f[0] == "stmt" and len(f[1]) == 4 and f[1][3] in (["none"], ["unknown", "NoneType", "None"])):
            return "C16/triple-outside-graph"
    return None


def _has_plain_literal(f) -> bool:
    if not f or f[0] != "stmt":
        return False

    def walk(t):
        if not isinstance(t, list) or not t:
            return False
        if t[0] == "lit":
            return t[2] is None and t[3] is None
        if t[0] == "triple":
            return any(walk(x) for x in t[1:])
        return False

    return any(walk(t) for t in f[1])
