"""C06 - no accepted serializer configuration silently drops statements."""
from __future__ import annotations

import io
import itertools

from .. import monitors, pj, refdec, wire
from .. import terms as T

from pyjelly.integrations.generic import serialize as gser  # noqa: E402
from pyjelly.integrations.rdflib import serialize as rser  # noqa: E402
from pyjelly.options import LookupPreset, StreamParameters  # noqa: E402
from pyjelly.serialize import flows as F  # noqa: E402
from pyjelly.serialize.ioutils import write_delimited, write_single  # noqa: E402
from pyjelly.serialize.streams import SerializerOptions  # noqa: E402

ID = "C06"
LEVEL = "exploration"
RULE = ("the whole configuration lattice is enumerated: {TripleStream,QuadStream,GraphStream | class guessed from data} x 8 "
        "logical types x delimited {T,F} x frame size {1,3,250} x flow {inferred, FrameFlow, ManualFrameFlow, "
        "BoundedFrameFlow, FlatTriples-, FlatQuads-, Graphs-, DatasetsFrameFlow, each with default and with matching "
        "logical type} x entry points {generic stream_frames(sink|generator), flat_stream_to_file, grouped_stream_to_file, "
        "sink.serialize; rdflib Graph.serialize(stream=|options=), flat_stream_to_file, grouped_stream_to_file; generator entry "
        "points also with the frames gathered in a list before being written; plus two flat_stream_to_file calls that share one "
        "options object and overlap (the inner call made from inside the outer call's input generator); plus the store/sink entry "
        "points with namespace declarations on (1 or 6 bindings) x frame size {1,3,5,12,250}; explicit flows also handed over as "
        "copy.copy(flow) and inside a deep-copied options object; the same options object and flow instance used for a second file after a first complete one; every entry point x framing x frame size {1,250} with lookup "
        "tables smaller than / equal to / larger than what one statement of the input needs (3 prefixes or 2 datatypes at once, "
        "from the first statement on)} x inputs of "
        "1, 3, 5 statements with fresh terms and 4, 6 statements re-using terms (single-row statements). Oracle for every configuration that returns without raising: every stream the entry point "
        "created or was given has an empty flow, and the bytes decode (pyjelly parser and reference decoder) to the input "
        "(documented quads->TRIPLES projection applied). Raising is always acceptable. Non-trivial = distinct accepted "
        "configurations. The special cases, the tiny-table sub-lattice and every 11th lattice point run once more in a child interpreter "
        "started with python -O (assert statements compiled away).")
ASSUMPTIONS = [
    "a quad input written through a TRIPLES stream (GRAPHS-family logical type) is expected to arrive as its s/p/o projection - the documented behaviour; losing a statement is the violation",
    "rdflib inputs are compared as sets",
]
ANCHORS = ["pyjelly/serialize/streams.py", "pyjelly/serialize/flows.py", "pyjelly/integrations/generic/serialize.py",
           "pyjelly/integrations/rdflib/serialize.py", "pyjelly/options.py"]
MARKERS = {
    "manual-flow-inferred": ("pyjelly/serialize/streams.py", r"flow = ManualFrameFlow\(logical_type"),
    "graphs-flow-frame-per-graph": ("pyjelly/serialize/flows.py", r"def frame_from_graph\(self\) -> jelly.RdfStreamFrame \| None:\n"),
    "write-single-selected": ("pyjelly/integrations/rdflib/serialize.py", r"write = write_delimited if"),
}
REQUIRED_OBSERVED = ["configurations-accepted", "configurations-raised", "streams-inspected"]
MIN_NONTRIVIAL = 200
MANIFEST = {
    "text": "Enumerates the complete configuration lattice named in the property (about 50k configuration x input "
            "combinations) against the real entry points; for every accepted one a stream registry hook inspects "
            "len(stream.flow) after return and two decoders (pyjelly's and the independent one) must give back the input.",
    "note": "Exhaustive over the configuration axes listed (evidence: exhaustive=true when every shard finished its slice); "
            "inputs are three small fixed statement lists per arity. Stream.__init__ is wrapped in-process to register streams.",
    "technique": "runtime monitoring: exhaustive configuration enumeration, flow-emptiness hook + double decode oracle",
}

LOGICALS = [0, 1, 2, 3, 4, 13, 14, 114]
FLOW_KINDS = ["inferred", "FrameFlow", "ManualFrameFlow", "BoundedFrameFlow", "FlatTriplesFrameFlow",
              "FlatQuadsFrameFlow", "GraphsFrameFlow", "DatasetsFrameFlow"]
ENTRIES = [
    # (name, integration, explicit stream class?, data kind)
    ("g_stream_frames_sink", "generic", True), ("g_stream_frames_gen", "generic", True),
    ("g_flat_to_file", "generic", False), ("g_grouped_to_file", "generic", False),
    ("r_serialize_stream", "rdflib", True), ("r_serialize_options", "rdflib", False),
    ("r_flat_to_file", "rdflib", False), ("r_grouped_to_file", "rdflib", False),
    ("r_stream_frames_gen", "rdflib", True),
]


def plan(tier: str) -> dict:
    return {"shards": 8, "budget_s": 80} if tier == "quick" else {"shards": 16, "budget_s": 600}


def inputs(arity: int, n: int, wide: str | None = None) -> list:
    if wide:
        # every statement needs three distinct prefixes ("prefixes") or two distinct datatypes ("datatypes") at once
        out = []
        for i in range(n if wide != "datatype-churn" else 14):
            if wide == "prefixes":
                st = [("iri", f"http://a{i}.example/s"), ("iri", f"http://b{i}.example/p"), ("iri", f"http://c{i}.example/o")]
            elif wide == "datatype-churn":
                # five datatypes used round-robin and revisited: with 2-4 slots every one is evicted and comes back
                st = [("iri", "http://ex.org/s"), ("iri", "http://ex.org/p"), ("lit", str(i), None, f"http://ex.org/dt/churn{(i * 3) % 5}")]
            else:
                st = [("lit", "1", None, f"http://ex.org/dt/a{i}"), ("iri", "http://ex.org/p"), ("lit", "2", None, f"http://ex.org/dt/b{i}")]
            if arity == 4:
                st.append(("iri", "http://a0.example/g") if i % 2 else ("default",))
            out.append(tuple(st))
        return out
    if n < 0:
        # "reuse" variant: after the first two statements every statement is a single row (no new entries),
        # so partial last frames of exactly one row occur
        out = []
        for i in range(-n):
            st = [("iri", "http://ex.org/s"), ("iri", "http://ex.org/p"), ("iri", f"http://ex.org/o{i % 2}")]
            if arity == 4:
                st.append(("iri", "http://ex.org/g") if i < 3 else ("default",))
            out.append(tuple(st))
        return out
    out = []
    graphs = [("iri", "http://ex.org/g1"), ("iri", "http://ex.org/g1"), ("bnode", "g2"), ("default",),
              ("iri", "http://ex.org/g1")]
    for i in range(n):
        st = [("iri", f"http://ex.org/s{i % 2}"), ("iri", f"http://ex.org/p{i}"),
              ("lit", f"v{i}", None, None) if i % 2 else ("iri", f"http://ex.org/o{i}")]
        if arity == 4:
            st.append(graphs[i % len(graphs)])
        out.append(tuple(st))
    return out


def enumerate_configs(tier: str):
    ns = (1, 3, 5, -4, -6)
    for (ename, integ, explicit), logical, delimited, fs, fk, n in itertools.product(
            ENTRIES, LOGICALS, (True, False), (1, 3, 250), FLOW_KINDS, ns):
        flow_logicals = [None] if fk == "inferred" else [None, logical]
        for fl in flow_logicals:
            if explicit:
                combos = [(1, 3), (1, 4), (2, 4), (3, 4)]
                if ename in ("g_stream_frames_gen", "r_stream_frames_gen"):
                    combos = [(1, 3), (2, 4), (3, 4)]
            else:
                combos = [(0, 3), (0, 4)]
            for phys, arity in combos:
                c = {"entry": ename, "integration": integ, "physical": phys, "arity": arity, "logical": logical,
                     "delimited": delimited, "frame_size": fs, "flow": fk, "flow_logical": fl, "n": n, "collect": False}
                yield c
                if n == 3 and ename != "g_stream_frames_gen":
                    # ... or the very same options object (and flow instance) is used for a second file
                    yield dict(c, second_use=True)
                if fk != "inferred" and n == 3:
                    # the flow reaches the stream as a COPY: copy.copy(flow), or a deep copy of an options template
                    yield dict(c, flow_via="copy")
                    yield dict(c, flow_via="deepcopy-options")
                if ename in ("g_stream_frames_sink", "g_stream_frames_gen", "r_stream_frames_gen") and n in (5, -6):
                    # a batching caller gathers the frames of the generator entry point before writing them
                    yield dict(c, collect=True)
    # store / sink entry points with namespace declarations switched on: 1 or 6 bindings against small frame sizes
    # (the declaration rows alone can fill a frame before the first statement)
    for (ename, integ, explicit), fs, k, n, delimited in itertools.product(
            [e for e in ENTRIES if e[0] in ("g_stream_frames_sink", "g_grouped_to_file", "r_serialize_stream",
                                            "r_serialize_options", "r_grouped_to_file")],
            (1, 3, 5, 12, 250), (1, 6), (3, -6), (True, False)):
        for phys, arity in ([(1, 3), (2, 4), (3, 4)] if explicit else [(0, 3), (0, 4)]):
            for fk in ("inferred", "FlatTriplesFrameFlow" if arity == 3 else "FlatQuadsFrameFlow"):
                yield {"entry": ename, "integration": integ, "physical": phys, "arity": arity,
                       "logical": 1 if arity == 3 else 2, "delimited": delimited, "frame_size": fs, "flow": fk,
                       "flow_logical": None, "n": n, "collect": False, "ns": k}
    # rdflib Datasets that also hold EMPTY named graphs (an IRI-named and a bnode-named one), through every stream class
    for (ename, integ, explicit), fs, n, delimited, logical in itertools.product(
            [e for e in ENTRIES if e[0] in ("r_serialize_stream", "r_serialize_options", "r_grouped_to_file")],
            (1, 3, 250), (3, -6), (True, False), (2, 4, 3)):
        for phys in ([1, 2, 3] if explicit else [0]):
            yield {"entry": ename, "integration": integ, "physical": phys, "arity": 4, "logical": logical, "delimited": delimited,
                   "frame_size": fs, "flow": "inferred", "flow_logical": None, "n": n, "collect": False, "empty_graphs": True}
    # lookup tables smaller than, equal to and larger than what ONE statement of the input needs (three prefixes / two
    # datatypes at once), from the first statement on: accepted configurations must still give the input back
    for (ename, integ, explicit), delimited, fs, n in itertools.product(ENTRIES, (True, False), (1, 250), (1, 3)):
        for wide, presets in (("prefixes", [(8, 1, 8), (8, 2, 8), (8, 3, 8), (8, 4, 8), (16, 0, 8)]),
                              ("datatypes", [(8, 8, 1), (8, 8, 2), (8, 8, 3)]),
                              ("datatype-churn", [(8, 8, 2), (8, 8, 3), (8, 8, 4), (8, 8, 5)])):
            if wide == "datatypes" and integ != "generic":
                continue
            if wide == "datatype-churn" and n == 1:
                continue
            for preset in presets:
                for phys, arity in ([(1, 3), (2, 4)] if explicit else [(0, 3), (0, 4)]):
                    yield {"entry": ename, "integration": integ, "physical": phys, "arity": arity,
                           "logical": 1 if arity == 3 else 2, "delimited": delimited, "frame_size": fs, "flow": "inferred",
                           "flow_logical": None, "n": n, "collect": False, "wide": wide, "preset": list(preset)}
    # the flat convenience entry points fed PLAIN (s, p, o[, g]) tuples (what Graph.triples() / Dataset.quads() yield) and/or
    # no options at all (everything guessed from the first statement)
    for (ename, integ, explicit), n, arity, plain, how in itertools.product(
            [e for e in ENTRIES if e[0] in ("g_flat_to_file", "r_flat_to_file")], ns, (3, 4), (False, True), ("none", "unspecified", "given")):
        if integ == "generic" and plain:
            continue
        if how == "given" and not plain:
            continue                      # that is the main lattice
        yield {"entry": ename, "integration": integ, "physical": 0, "arity": arity, "logical": 0 if how != "given" else (1 if arity == 3 else 2),
               "delimited": True, "frame_size": 3, "flow": "inferred", "flow_logical": None, "n": n, "collect": False,
               "plain_tuples": plain, "options_how": how}
    for n in ns:
        for arity in (3, 4):
            # a sink filled by sink.parse(<file>) rather than by add(), written out again with guessed options
            yield {"entry": "g_sink_reparsed_serialize", "integration": "generic", "physical": 0, "arity": arity, "logical": None,
                   "delimited": True, "frame_size": 250, "flow": "inferred", "flow_logical": None, "n": n, "collect": False}
            yield {"entry": "g_sink_reparsed_grouped", "integration": "generic", "physical": 0, "arity": arity, "logical": None,
                   "delimited": True, "frame_size": 250, "flow": "inferred", "flow_logical": None, "n": n, "collect": False}
    for n in ns:
        for arity in (3, 4):
            yield {"entry": "g_sink_serialize", "integration": "generic", "physical": 0, "arity": arity, "logical": None,
                   "delimited": True, "frame_size": 250, "flow": "inferred", "flow_logical": None, "n": n, "collect": False}


def build_flow(c: dict):
    fk = c["flow"]
    if fk == "inferred":
        return None
    cls = getattr(F, fk)
    kw = {}
    if c["flow_logical"] is not None:
        kw["logical_type"] = c["flow_logical"]
    if issubclass(cls, F.BoundedFrameFlow):
        kw["frame_size"] = c["frame_size"]
    return cls(**kw)


def _maybe_list(frames, c: dict):
    return list(frames) if c.get("collect") else frames


def run_config(c: dict) -> dict:
    """Execute one configuration. Returns {'outcome': 'raised'|'returned', ...}."""
    monitors.registry_clear()
    stmts = inputs(c["arity"], c["n"], c.get("wide"))
    out = io.BytesIO()
    res: dict = {"stmts": stmts}
    binds = [(f"p{i}", f"http://ex.org/nsdecl/{i}/") for i in range(c.get("ns") or 0)]
    # (a Dataset yields its graphs in hash order: several empty ones, so that some come before a non-empty graph)
    eg = ([("iri", f"http://ex.org/emptygraph/{k}/new-prefix#g{k}") for k in range(6)] + [("bnode", "emptyg")]) \
        if c.get("empty_graphs") else None
    try:
        flow = build_flow(c)
        if c["entry"] in ("g_sink_reparsed_serialize", "g_sink_reparsed_grouped"):
            from pyjelly.integrations.generic.generic_sink import GenericStatementSink
            first = io.BytesIO()
            pj.generic_sink_of(stmts).serialize(first)
            sink = GenericStatementSink()
            sink.parse(io.BytesIO(first.getvalue()))
            if c["entry"] == "g_sink_reparsed_serialize":
                sink.serialize(out)
            else:
                gser.grouped_stream_to_file((x for x in [sink]), out)
        elif c["entry"] == "g_sink_serialize":
            pj.generic_sink_of(stmts).serialize(out)
        else:
            options = SerializerOptions(
                flow=flow, frame_size=c["frame_size"], logical_type=c["logical"],
                params=StreamParameters(delimited=c["delimited"], generalized_statements=True, rdf_star=True,
                                        namespace_declarations=bool(binds)),
                lookup_preset=LookupPreset(max_names=c["preset"][0], max_prefixes=c["preset"][1], max_datatypes=c["preset"][2])
                if c.get("preset") else LookupPreset.small())
            if c.get("flow_via") == "copy":
                import copy
                options.flow = copy.copy(flow)
            elif c.get("flow_via") == "deepcopy-options":
                import copy
                options = copy.deepcopy(options)
            def emit(out):
                cfg = {"integration": c["integration"], "physical": c["physical"]}
                write = write_delimited if c["delimited"] else write_single
                e = c["entry"]
                if e == "g_stream_frames_sink":
                    stream = pj.make_stream(cfg, options)
                    for fr in _maybe_list(gser.stream_frames(stream, pj.generic_sink_of(stmts, binds)), c):
                        write(fr, out)
                elif e == "g_stream_frames_gen":
                    stream = pj.make_stream(cfg, options)
                    for fr in _maybe_list(gser.stream_frames(stream, (T.stmt_to_generic(s) for s in stmts)), c):
                        write(fr, out)
                elif e == "g_flat_to_file":
                    gser.flat_stream_to_file((T.stmt_to_generic(s) for s in stmts), out, options=None if c.get("options_how") == "none" else options)
                elif e == "g_grouped_to_file":
                    gser.grouped_stream_to_file((s for s in [pj.generic_sink_of(stmts, binds)]), out, options=options)
                elif e == "r_serialize_stream":
                    stream = pj.make_stream(cfg, options)
                    store = pj.rdflib_store_of(stmts, binds, dataset=c["arity"] == 4, empty_graphs=eg)
                    store.serialize(out, format="jelly", stream=stream, options=options)
                elif e == "r_serialize_options":
                    store = pj.rdflib_store_of(stmts, binds, dataset=c["arity"] == 4, empty_graphs=eg)
                    store.serialize(out, format="jelly", options=options)
                elif e == "r_flat_to_file":
                    conv = (lambda st: tuple(T.stmt_to_rdflib(st))) if c.get("plain_tuples") else T.stmt_to_rdflib
                    rser.flat_stream_to_file((conv(s) for s in stmts), out, options=None if c.get("options_how") == "none" else options)
                elif e == "r_grouped_to_file":
                    store = pj.rdflib_store_of(stmts, binds, dataset=c["arity"] == 4, empty_graphs=eg)
                    rser.grouped_stream_to_file((s for s in [store]), out, options=options)
                elif e == "r_stream_frames_gen":
                    stream = pj.make_stream(cfg, options)
                    for fr in _maybe_list(rser.stream_frames(stream, (T.stmt_to_rdflib(s) for s in stmts)), c):
                        write(fr, out)
                else:
                    raise ValueError(e)

            if c.get("second_use"):
                # the caller's options object - and with it the explicit flow INSTANCE - was already used for an earlier,
                # complete serialization; this is the second file written with it
                emit(io.BytesIO())
                monitors.registry_clear()
            emit(out)
    except Exception as ex:  # noqa: BLE001 - raising is always acceptable
        res["outcome"] = "raised"
        res["exception"] = f"{type(ex).__name__}: {str(ex)[:120]}"
        return res
    res["outcome"] = "returned"
    res["bytes"] = out.getvalue()
    streams = monitors.registry_streams()
    res["streams"] = [{"class": type(s).__name__, "flow_class": type(s.flow).__name__, "leftover_rows": len(s.flow),
                       "logical": int(s.stream_types.logical_type), "flat": bool(s.stream_types.flat),
                       "physical": int(s.physical_type)} for s in streams]
    return res


def expected(c: dict, res: dict) -> list:
    stmts = res["stmts"]
    phys = res["streams"][0]["physical"] if res.get("streams") else None
    if c["arity"] == 4 and phys == 1 and (c.get("physical") == 1 or c.get("logical") in (1, 3, 13)):
        # documented projection of quads onto a TRIPLES stream - when the CALLER asked for one (stream class or a
        # triples-family logical type); a stream class merely guessed from the data must carry the quads as quads
        return [s[:3] for s in stmts]
    return stmts


def judge(c: dict, res: dict):
    """-> witness or None (only for outcome == returned)."""
    streams = res.get("streams", [])
    if not streams:
        return {"clause": "no-stream-observed", "summary": "the entry point returned but no Stream was registered"}
    left = [s for s in streams if s["leftover_rows"]]
    data = res["bytes"]
    base = {"cfg": c, "streams": streams, "n_bytes": len(data)}
    if left:
        s = left[0]
        return {**base, "clause": "rows-left-in-flow",
                "summary": f"{c['entry']} returned with {s['leftover_rows']} rows still in {s['flow_class']} of "
                           f"{s['class']} (logical {s['logical']}, delimited={c['delimited']}); {len(data)} bytes written"}
    want = [T.norm_stmt(s) for s in expected(c, res)]
    ordered = c["integration"] == "generic"
    # (1) pyjelly's own parser
    try:
        evs = pj.parse("generic", "flat", data)
        got = [T.norm_stmt(e[1]) for e in evs if e[0] == "stmt"]
    except Exception as ex:  # noqa: BLE001
        return {**base, "clause": "bytes-do-not-parse",
                "summary": f"{c['entry']} returned, {len(data)} bytes written, parse_jelly_flat raises {type(ex).__name__}: {ex}"}
    if (got != want) if ordered else (set(got) != set(want) or len(got) < len(set(want))):
        return {**base, "clause": "parse-differs", "summary": f"parsed {len(got)} statements, expected {len(want)}: {got[:2]} vs {want[:2]}"}
    # (2) independent decoder; framing is whatever the file actually is (the *_to_file helpers always delimit)
    try:
        delim = wire.is_delimited_by_construction(data)
        r = refdec.decode(wire.dec_stream(data, delim), strict_graphs=True)
    except wire.WireError as ex:
        return {**base, "clause": "bytes-do-not-parse", "summary": f"wire error {ex}"}
    if r.violation is not None:
        return {**base, "clause": "reference-decoder-rejects", "summary": str(r.violation)}
    got2 = [T.norm_stmt(s) for s in r.statements]
    if (got2 != want) if ordered else (set(got2) != set(want)):
        return {**base, "clause": "independent-decode-differs", "summary": f"{got2[:2]} vs {want[:2]}"}
    # (3) the header the call wrote must be one a conforming reader accepts: a logical type from the other family than
    # the physical type (the specification's compatibility table) means the combination was NOT honoured but written
    ph, lg = int(r.options.get("physical_type", 0)), int(r.options.get("logical_type", 0))
    if ph and lg and ((ph == 1) != (lg in (1, 3, 13))):
        return {**base, "clause": "header-contradicts-rows",
                "summary": f"{c['entry']} returned normally and wrote a stream declaring physical type {ph} with logical type {lg}: "
                           f"a pair the format forbids (a reader must refuse the file)"}
    return None


def nested_cases():
    """Two serializations that share ONE SerializerOptions(flow=None) object and overlap at statement granularity:
    the inner *_to_file call is made from inside the outer call's input generator."""
    for integ in ("generic", "rdflib"):
        for arity in (3, 4):
            for fs in (1, 3, 250):
                for delimited in (True, False):
                    for n_outer, n_inner, at in ((5, 3, 2), (-6, 5, 4), (3, -4, 1)):
                        yield {"entry": "nested_flat_to_file", "integration": integ, "arity": arity, "frame_size": fs,
                               "delimited": delimited, "n": n_outer, "n_inner": n_inner, "at": at, "physical": 0,
                               "logical": 1 if arity == 3 else 2, "flow": "inferred", "flow_logical": None, "collect": False}


def run_nested(c: dict):
    """-> witness or None"""
    mod = gser if c["integration"] == "generic" else rser
    conv = T.stmt_to_generic if c["integration"] == "generic" else T.stmt_to_rdflib
    options = SerializerOptions(frame_size=c["frame_size"], logical_type=c["logical"],
                                params=StreamParameters(delimited=c["delimited"], generalized_statements=True, rdf_star=True),
                                lookup_preset=LookupPreset.small())
    outer_in = inputs(c["arity"], c["n"])
    inner_in = [tuple(("iri", t[1] + "/inner") if t[0] == "iri" else t for t in st) for st in inputs(c["arity"], c["n_inner"])]
    out_outer, out_inner = io.BytesIO(), io.BytesIO()

    def outer_gen():
        for k, st in enumerate(outer_in):
            if k == c["at"]:
                mod.flat_stream_to_file((conv(x) for x in inner_in), out_inner, options=options)
            yield conv(st)
    try:
        mod.flat_stream_to_file(outer_gen(), out_outer, options=options)
    except Exception:  # noqa: BLE001 - refusing is fine
        return None, "raised"
    for name, data, want in (("outer", out_outer.getvalue(), outer_in), ("inner", out_inner.getvalue(), inner_in)):
        try:
            got = [T.norm_stmt(e[1]) for e in pj.parse("generic", "flat", data) if e[0] == "stmt"]
        except Exception as ex:  # noqa: BLE001
            return {"clause": "bytes-do-not-parse", "cfg": c, "streams": [], "n_bytes": len(data),
                    "summary": f"overlapping serializations sharing one options object: the {name} file ({len(data)} bytes) does not "
                               f"parse: {type(ex).__name__}: {ex}"}, "returned"
        w = [T.norm_stmt(x) for x in want]
        if (got != w) if c["integration"] == "generic" else (set(got) != set(w)):
            return {"clause": "parse-differs", "cfg": c, "streams": [], "n_bytes": len(data),
                    "summary": f"overlapping serializations sharing one options object: the {name} file holds {len(got)} statements, "
                               f"{len(w)} were submitted"}, "returned"
    return None, "returned"


class ShortWriteRaw(io.RawIOBase):
    """An unbuffered output (non-blocking pipe, socket with timeout) that accepts at most `cap` bytes per write()
    and says so through its return value."""

    def __init__(self, cap: int):
        super().__init__()
        self.cap = cap
        self.buf = bytearray()

    def writable(self):
        return True

    def write(self, b):
        n = min(len(b), self.cap)
        self.buf += bytes(b[:n])
        return n


def short_write_cases():
    for entry in ("g_flat_to_file", "g_grouped_to_file", "r_flat_to_file", "r_grouped_to_file", "r_serialize_options"):
        for arity in (3, 4):
            for cap in (1, 7, 40, 4096):
                for n in (3, -6):
                    yield {"entry": "short-write:" + entry, "integration": "generic" if entry[0] == "g" else "rdflib",
                           "arity": arity, "cap": cap, "n": n, "frame_size": 3, "delimited": True,
                           "logical": 1 if arity == 3 else 2, "physical": 0, "flow": "inferred", "flow_logical": None, "collect": False}


def run_short_write(c: dict):
    stmts = inputs(c["arity"], c["n"])
    out = ShortWriteRaw(c["cap"])
    options = SerializerOptions(frame_size=c["frame_size"], logical_type=c["logical"],
                                params=StreamParameters(generalized_statements=True, rdf_star=True), lookup_preset=LookupPreset.small())
    e = c["entry"].split(":")[1]
    try:
        if e == "g_flat_to_file":
            gser.flat_stream_to_file((T.stmt_to_generic(s) for s in stmts), out, options=options)
        elif e == "g_grouped_to_file":
            gser.grouped_stream_to_file((s for s in [pj.generic_sink_of(stmts, binds)]), out, options=options)
        elif e == "r_flat_to_file":
            rser.flat_stream_to_file((T.stmt_to_rdflib(s) for s in stmts), out, options=options)
        elif e == "r_grouped_to_file":
            rser.grouped_stream_to_file((s for s in [pj.rdflib_store_of(stmts, dataset=c["arity"] == 4)]), out, options=options)
        else:
            rser.RDFLibJellySerializer(pj.rdflib_store_of(stmts, dataset=c["arity"] == 4)).serialize(out, options=options)
    except Exception:  # noqa: BLE001 - refusing (raising) is what a writer that cannot honour the call should do
        return None, "raised"
    data = bytes(out.buf)
    want = [T.norm_stmt(s) for s in stmts]
    try:
        got = [T.norm_stmt(ev[1]) for ev in pj.parse("generic", "flat", data) if ev[0] == "stmt"]
    except Exception as ex:  # noqa: BLE001
        return {"clause": "bytes-do-not-parse", "cfg": c, "streams": [], "n_bytes": len(data),
                "summary": f"{e} returned normally although the output accepted only {c['cap']} bytes per write(): "
                           f"{len(data)} bytes reached it and they do not parse ({type(ex).__name__})"}, "returned"
    if (got != want) if c["integration"] == "generic" else (set(got) != set(want)):
        return {"clause": "parse-differs", "cfg": c, "streams": [], "n_bytes": len(data),
                "summary": f"{e} with short writes returned normally; {len(got)} of {len(want)} statements are in the output"}, "returned"
    return None, "returned"


def arity_mismatch_cases():
    for integ in ("generic", "rdflib"):
        for scenario in ("empty-first-sink-then-triples", "short-statement-among-quads", "quadstream-fed-triples",
                         "triplestream-fed-short-tuple", "missing-term-0", "missing-term-1", "missing-term-2", "missing-term-3",
                         "missing-term-in-triples-0", "missing-term-in-triples-2"):
            for fs in (1, 3, 250):
                for at in (0, 2, 4):
                    yield {"entry": "arity-mismatch:" + scenario, "integration": integ, "frame_size": fs, "at": at,
                           "arity": 4, "n": 5, "delimited": True, "logical": None, "physical": 0, "flow": "inferred",
                           "flow_logical": None, "collect": False}


def run_arity_mismatch(c: dict):
    """A statement that does not fit the stream cannot be honoured: the call must raise, or everything submitted
    must be in the bytes."""
    integ = c["integration"]
    mod = gser if integ == "generic" else rser
    conv = T.stmt_to_generic if integ == "generic" else T.stmt_to_rdflib
    quads, triples = inputs(4, 5), inputs(3, 5)
    out = io.BytesIO()
    sc = c["entry"].split(":")[1]
    submitted = None
    try:
        if sc == "empty-first-sink-then-triples":
            if integ == "generic":
                sinks = [pj.generic_sink_of([]), pj.generic_sink_of(triples)]
            else:
                sinks = [pj.rdflib_store_of([], dataset=True), pj.rdflib_store_of(triples, dataset=False)]
            submitted = triples
            mod.grouped_stream_to_file((x for x in sinks), out,
                                       options=SerializerOptions(frame_size=c["frame_size"], lookup_preset=LookupPreset.small()) if integ == "rdflib" else None)
        elif sc == "short-statement-among-quads":
            seq = [conv(q) for q in quads]
            short = seq[c["at"]][:3]
            seq[c["at"]] = tuple(short) if integ == "rdflib" else type(conv(triples[0]))(*short)
            submitted = quads
            mod.flat_stream_to_file((x for x in seq), out, options=SerializerOptions(
                frame_size=c["frame_size"], logical_type=2, lookup_preset=LookupPreset.small()))
        elif sc.startswith("missing-term-in-triples-"):
            # a statement with a MISSING value (None where a term belongs - a failed look-up upstream) among triples
            slot = int(sc[-1])
            seq = [conv(t) for t in triples]
            bad = list(seq[c["at"]])
            bad[slot] = None
            seq[c["at"]] = tuple(bad) if integ == "rdflib" else type(seq[0])(*bad)
            submitted = triples
            stream = pj.make_stream({"integration": integ, "physical": 1},
                                    SerializerOptions(frame_size=c["frame_size"], logical_type=1, lookup_preset=LookupPreset.small()))
            for fr in mod.stream_frames(stream, (x for x in seq)):
                write_delimited(fr, out)
        elif sc.startswith("missing-term-"):
            slot = int(sc[-1])
            seq = [conv(q) for q in quads]
            bad = list(seq[c["at"]])
            bad[slot] = None
            seq[c["at"]] = tuple(bad) if integ == "rdflib" else type(seq[0])(*bad)
            submitted = quads
            mod.flat_stream_to_file((x for x in seq), out, options=SerializerOptions(
                frame_size=c["frame_size"], logical_type=2, lookup_preset=LookupPreset.small()))
        elif sc == "quadstream-fed-triples":
            stream = pj.make_stream({"integration": integ, "physical": 2},
                                    SerializerOptions(frame_size=c["frame_size"], logical_type=2, lookup_preset=LookupPreset.small()))
            submitted = triples
            for fr in mod.stream_frames(stream, (conv(t) for t in triples)):
                write_delimited(fr, out)
        else:
            stream = pj.make_stream({"integration": integ, "physical": 1},
                                    SerializerOptions(frame_size=c["frame_size"], logical_type=1, lookup_preset=LookupPreset.small()))
            seq = [conv(t) for t in triples]
            seq[c["at"]] = tuple(seq[c["at"]])[:2]
            submitted = triples
            for fr in mod.stream_frames(stream, (x for x in seq)):
                write_delimited(fr, out)
    except Exception:  # noqa: BLE001 - refusing is the right answer
        return None, "raised"
    data = out.getvalue()
    try:
        got = [e for e in pj.parse("generic", "flat", data) if e[0] == "stmt"] if data else []
    except Exception as ex:  # noqa: BLE001
        return {"clause": "bytes-do-not-parse", "cfg": c, "streams": [], "n_bytes": len(data),
                "summary": f"{sc} ({integ}): returned normally, {len(data)} bytes written, they do not parse ({type(ex).__name__})"}, "returned"
    if len(got) < len(submitted):
        return {"clause": "parse-differs", "cfg": c, "streams": [], "n_bytes": len(data),
                "summary": f"{sc} ({integ}): the call returned normally but only {len(got)} of the {len(submitted)} statements handed "
                           f"to it are in the {len(data)} bytes written (a statement that does not fit the stream must make it raise)"}, "returned"
    return None, "returned"


def store_kind_cases():
    for kind in ("aggregate", "graph-subclass", "conjunctive"):
        for entry in ("serialize", "grouped_to_file", "stream_frames"):
            for fs in (1, 250):
                yield {"entry": f"store-kind:{kind}:{entry}", "integration": "rdflib", "frame_size": fs, "arity": 3, "n": 5,
                       "delimited": True, "logical": 1, "physical": 1, "flow": "inferred", "flow_logical": None, "collect": False}


def run_store_kind(c: dict):
    """rdflib graph-like inputs that are not a plain Graph over its own store context: a ReadOnlyGraphAggregate, a Graph
    subclass that overrides triples(), a ConjunctiveGraph.  The call must raise, or every triple the object yields when iterated
    must be in the bytes."""
    import rdflib
    from rdflib.graph import ReadOnlyGraphAggregate
    _k, kind, entry = c["entry"].split(":")
    stmts = inputs(3, 5)
    native = [tuple(T.to_rdflib(t) for t in st) for st in stmts]
    if kind == "aggregate":
        g1, g2 = rdflib.Graph(), rdflib.Graph()
        for t in native[:3]:
            g1.add(t)
        for t in native[3:]:
            g2.add(t)
        store = ReadOnlyGraphAggregate([g1, g2])
    elif kind == "conjunctive":
        store = rdflib.ConjunctiveGraph()
        for k, t in enumerate(native):
            store.get_context(rdflib.URIRef(f"http://ex.org/ctx{k % 2}")).add(t)
    else:
        class Computed(rdflib.Graph):
            def triples(self, pattern):
                yield from native
        store = Computed()
    want = {T.norm_stmt(s) for s in stmts}
    out = io.BytesIO()
    options = SerializerOptions(frame_size=c["frame_size"], logical_type=1, lookup_preset=LookupPreset.small())
    try:
        if entry == "serialize":
            store.serialize(out, format="jelly", options=options)
        elif entry == "grouped_to_file":
            rser.grouped_stream_to_file((x for x in [store]), out, options=options)
        else:
            stream = pj.make_stream({"integration": "rdflib", "physical": 1}, options)
            for fr in rser.stream_frames(stream, store):
                write_delimited(fr, out)
    except Exception:  # noqa: BLE001 - refusing is fine
        return None, "raised"
    data = out.getvalue()
    try:
        got = {T.norm_stmt(e[1]) for e in pj.parse("generic", "flat", data) if e[0] == "stmt"} if data else set()
    except Exception as ex:  # noqa: BLE001
        return {"clause": "bytes-do-not-parse", "cfg": c, "streams": [], "n_bytes": len(data),
                "summary": f"{c['entry']}: returned normally, {len(data)} bytes written, they do not parse ({type(ex).__name__})"}, "returned"
    if not want <= {x[:3] for x in got}:
        return {"clause": "parse-differs", "cfg": c, "streams": [], "n_bytes": len(data),
                "summary": f"{c['entry']}: the call returned normally but only {len(want & {x[:3] for x in got})} of the {len(want)} triples the "
                           f"object yields are in the {len(data)} bytes written"}, "returned"
    return None, "returned"


def run_shard(ctx):
    monitors.stream_registry_on()
    if ctx.shard == 4 % ctx.nshards:
        for c in store_kind_cases():
            w, outcome = run_store_kind(c)
            ctx.observe("store-kind-inputs")
            ctx.observe("configurations-accepted" if outcome == "returned" else "configurations-raised")
            if w is not None:
                ctx.violation(w)
            ctx.case(tuple(sorted((k, str(v)) for k, v in c.items())), outcome == "returned",
                     sample={"cfg": c, "kind": "rdflib graph-like input that is not a plain Graph", "outcome": outcome})
    if ctx.shard == 3 % ctx.nshards:
        # a slice of everything again in an interpreter started with -O: "must raise instead of writing" may not hinge on an assert
        from .. import childopt
        childopt.run(ctx, ID, 1)
    if ctx.shard == 2 % ctx.nshards:
        for c in arity_mismatch_cases():
            w, outcome = run_arity_mismatch(c)
            ctx.observe("arity-mismatch-inputs")
            ctx.observe("configurations-accepted" if outcome == "returned" else "configurations-raised")
            if w is not None:
                ctx.violation(w)
            ctx.case(tuple(sorted((k, str(v)) for k, v in c.items())), outcome == "returned",
                     sample={"cfg": c, "kind": "statement that does not fit the stream (arity / missing term)", "outcome": outcome})
    if ctx.shard == 1 % ctx.nshards:
        for c in short_write_cases():
            w, outcome = run_short_write(c)
            ctx.observe("short-write-outputs")
            ctx.observe("configurations-accepted" if outcome == "returned" else "configurations-raised")
            if w is not None:
                ctx.violation(w)
            ctx.case(tuple(sorted((k, str(v)) for k, v in c.items())), outcome == "returned",
                     sample={"cfg": c, "kind": "output that accepts partial writes", "outcome": outcome})
    if ctx.shard == 0:
        for c in nested_cases():
            w, outcome = run_nested(c)
            ctx.observe("nested-serializations")
            ctx.observe("configurations-accepted" if outcome == "returned" else "configurations-raised")
            if w is not None:
                ctx.violation(w)
            ctx.case(tuple(sorted((k, str(v)) for k, v in c.items())), outcome == "returned",
                     sample={"cfg": c, "kind": "nested serializations sharing one options object"})
    done_all = True
    for idx, c in enumerate(enumerate_configs(ctx.tier)):
        if idx % ctx.nshards != ctx.shard:
            continue
        if ctx.out_of_time():
            done_all = False
            break
        res = run_config(c)
        key = tuple(sorted((k, str(v)) for k, v in c.items()))
        if res["outcome"] == "raised":
            ctx.observe("configurations-raised")
            ctx.observe(f"raised:{res['exception'].split(':')[0]}")
            ctx.case(key, False)
            continue
        ctx.observe("configurations-accepted")
        ctx.observe("streams-inspected", len(res.get("streams", [])))
        ctx.observe(f"accepted:{c['entry']}")
        for s in res.get("streams", []):
            ctx.observe(f"flow-class:{s['flow_class']}")
        w = judge(c, res)
        if w is not None:
            ctx.violation(w)
        ctx.case(key, True, sample={"cfg": c, "streams": res.get("streams"), "bytes": len(res["bytes"])})
    ctx.extra["enumeration_complete"] = done_all
    ctx.observe("registry-evaluations", monitors.EVALS["Stream.__init__"])


def child_case(ctx, rng, k):
    """python -O slice: the special cases, the whole tiny-table sub-lattice and every 11th point of the main lattice."""
    monitors.stream_registry_on()
    for cases, runner in ((arity_mismatch_cases(), run_arity_mismatch), (short_write_cases(), run_short_write), (nested_cases(), run_nested)):
        for c in cases:
            w, outcome = runner(c)
            ctx.observe("configurations-accepted" if outcome == "returned" else "configurations-raised")
            if w is not None:
                ctx.violation(w)
            ctx.case(None, True)
    for idx, c in enumerate(enumerate_configs("quick")):
        if idx % 11 and not c.get("preset"):
            continue
        res = run_config(c)
        if res["outcome"] == "raised":
            ctx.observe("configurations-raised")
            continue
        ctx.observe("configurations-accepted")
        w = judge(c, res)
        if w is not None:
            ctx.violation(w)
        ctx.case(None, True)


def EXHAUSTIVE(merged, tier):
    return all(ex.get("enumeration_complete") for ex in merged["extra"]) and len(merged["extra"]) == merged["shards"]


def finalize(merged, tier, seed):
    if not EXHAUSTIVE(merged, tier):
        merged["inconclusive"].append("configuration lattice not fully enumerated within the budget")


def replay(w: dict):
    monitors.stream_registry_on()
    c = w["cfg"]
    if c.get("entry") == "nested_flat_to_file":
        return run_nested(c)[0]
    if str(c.get("entry", "")).startswith("short-write:"):
        return run_short_write(c)[0]
    if str(c.get("entry", "")).startswith("arity-mismatch:"):
        return run_arity_mismatch(c)[0]
    if str(c.get("entry", "")).startswith("store-kind:"):
        return run_store_kind(c)[0]
    res = run_config(c)
    if res["outcome"] == "raised":
        return None
    return judge(c, res)


def classify(w: dict):
    """Mechanism of the defect repaired by the 'always flush' fix (known_findings.json: fixed)."""
    if w.get("clause") != "rows-left-in-flow":
        return None
    left = [s for s in w["streams"] if s["leftover_rows"]]
    if left and not left[0]["flat"]:
        return "C06/unflushed-flow-at-end-of-input/non-flat-logical-type"
    return None
