"""C20 - a rejected statement never poisons the rest of the stream."""
from __future__ import annotations

from .. import gen, pj, refdec, wire
from .. import terms as T

ID = "C20"
LEVEL = "fault_enumeration"
RULE = ("Triple/Quad/Graph streams of both term encoders are driven statement by statement (stream.triple / quad / graph) by a "
        "catch-and-continue loop; at EVERY position of the sequence and EVERY slot (s, p, o, g, nested in a quoted triple) one "
        "statement is made unencodable by each cause (unsupported term object, typed literal while the datatype table is "
        "disabled, statement tuple too short, a string protobuf cannot encode); the statements that follow re-use the rejected "
        "statement's IRIs and repeat the terms of its already-encoded slots; in one case in five the caller also declares a namespace "
        "sharing an IRI of the rejected statement right after the rejection; the caller continues either by calling the same "
        "methods, or as a batch loop that calls stream.enroll() before each statement, or by handing each later statement to "
        "stream_frames(stream, ...). Oracle: either every later call raises and the "
        "bytes (incl. a final manual flush) are a valid stream that decodes to the statements accepted before the failure, "
        "or the bytes decode (reference decoder with lenient graph bracketing, and pyjelly's own parser) to exactly the "
        "accepted statements in order; frames handed out before the failure decode to a prefix. Non-trivial: the rejection "
        "happened after >= 1 term of the same statement had been encoded; distinct by (configuration, cause, position, slot, "
        "statements).")
ASSUMPTIONS = [
    "a statement counts as accepted when the call returned without raising",
    "graph bracketing is judged leniently: a graph left open by a rejected triple may be re-opened",
]
ANCHORS = ["pyjelly/serialize/encode.py", "pyjelly/serialize/streams.py", "pyjelly/serialize/lookup.py",
           "pyjelly/integrations/generic/serialize.py", "pyjelly/integrations/rdflib/serialize.py"]
MARKERS = {
    "datatype-disabled-raise": ("pyjelly/serialize/encode.py", r"datatype lookup cannot be used if disabled"),
    "unsupported-term-raise": ("pyjelly/serialize/encode.py", r'msg = f"unsupported term type: \{type\(term\)\}"'),
}
REQUIRED_OBSERVED = ["runs", "rejections", "rejections-after-partial-encoding", "continued-after-rejection-or-refused"]
MIN_NONTRIVIAL = 30
MANIFEST = {
    "category": "fault_enumeration",
    "text": "Injects one unencodable statement at every position and slot of generated sequences, for each rejection cause, "
            "into real streams driven through their public per-statement methods, and decodes everything the stream "
            "produced with the independent decoder: accepted statements must come back exactly, or the stream must refuse "
            "all further use.",
    "note": "Fault positions are enumerated per generated sequence (short sequences, all slots); sequences and "
            "configurations are sampled. Trusted base: rv.refdec (lenient bracketing).",
    "technique": "runtime monitoring with fault injection: per-call accept/reject log + independent decode of the produced bytes",
}

FRESH = "http://ex.org/fresh#"       # namespace of the unencodable IRIs: its prefix entry is new when the fault strikes

CAUSES = ["unsupported-term", "typed-literal-datatypes-disabled", "tuple-too-short", "tuple-too-long", "unencodable-string",
          "bad-namespace-declaration"]


def plan(tier: str) -> dict:
    return {"shards": 4, "budget_s": 40} if tier == "quick" else {"shards": 16, "budget_s": 400}


class Bad:
    """An object no term encoder knows."""

    def __repr__(self):
        return "Bad()"


def to_native(integ: str, st: tuple, fault):
    """Neutral statement -> native tuple; fault = (slot_index, path, cause) or None."""
    conv = T.to_generic if integ == "generic" else T.to_rdflib
    terms = [conv(t) for t in st]
    if fault is None:
        return _wrap(integ, terms)
    idx, nested, cause = fault
    if cause == "tuple-too-short":
        return tuple(terms[:-1])             # plain tuple with one term missing
    if cause == "tuple-too-long":
        return tuple(terms) + (terms[0],)    # plain tuple with one term too many (e.g. a quad handed to a triples stream)
    if cause == "unsupported-term":
        bad = Bad()
    elif cause == "typed-literal-datatypes-disabled":
        bad = conv(("lit", "1", None, "http://ex.org/dt/x"))
    else:
        if integ == "generic":
            bad = conv(("iri", FRESH + "bad\ud800")) if nested != "lit" else conv(("lit", "\ud800", None, None))
        elif idx == 3:
            bad = conv(("iri", FRESH + "bad\ud800"))        # graph name: an IRI whose NAME part cannot be encoded
        else:
            bad = conv(("lit", "x\ud800", None, None))
    if nested == "quoted" and integ == "generic":
        from pyjelly.integrations.generic.generic_sink import Triple
        inner = [conv(("iri", "http://ex.org/ns/q1")), conv(("iri", "http://ex.org/ns/q2")), bad]
        bad = Triple(*inner)
    terms[idx] = bad
    return _wrap(integ, terms)


def _wrap(integ, terms):
    if integ == "generic":
        from pyjelly.integrations.generic.generic_sink import Quad, Triple
        return Triple(*terms) if len(terms) == 3 else Quad(*terms)
    return tuple(terms)


CONTINUATIONS = ["direct", "enroll-each", "stream-frames-each", "stream-frames-all", "flush-after-rejection"]


def drive(integ: str, cfg: dict, stmts: list, fault_at: int, fault, ns_after=None, via: str = "direct"):
    """Catch-and-continue loop. -> dict(accepted, outcomes, frames (bytes), frames_before_failure)

    via: how the caller goes on AFTER the rejected statement - 'direct' keeps calling stream.triple/quad/graph;
    'enroll-each' is a batch loop that calls stream.enroll() before every statement (idempotent on a healthy stream);
    'stream-frames-each' hands each later statement to the integration's stream_frames(stream, [statement]) (TRIPLES/QUADS);
    'stream-frames-all' drives EVERY statement, the rejected one included, through stream_frames(stream, [statement]).

    ns_after = (prefix, iri): right after the faulty statement the caller also declares a namespace on the same stream
    (what re-entering stream_frames with declarations enabled does)."""
    stream = pj.make_stream({"integration": integ, "physical": cfg["physical"]}, pj.make_options(cfg))
    stream.enroll()
    phys = cfg["physical"]
    frames: list = []
    accepted: list = []
    outcomes: list = []
    frames_before = None

    def got(fr):
        if fr:
            frames.append(fr.SerializeToString(deterministic=True))

    i = 0
    n = len(stmts)
    while i < n:
        st = stmts[i]
        flt = fault if i == fault_at else None
        if i == fault_at and frames_before is None:
            frames_before = len(frames)
        try:
            native = to_native(integ, st, flt)
        except Exception as e:  # noqa: BLE001 - the harness could not even build the object
            outcomes.append(("harness", type(e).__name__))
            i += 1
            continue
        try:
            if i == fault_at + 1 and via == "flush-after-rejection":
                # the caller saves what was written before the rejection (cuts a frame by hand), then carries on
                got(stream.flow.to_stream_frame())
            if i > fault_at and via == "enroll-each":
                stream.enroll()
            if (i > fault_at and via == "stream-frames-each" and phys != 3) or (via == "stream-frames-all" and phys != 3):
                if integ == "generic":
                    from pyjelly.integrations.generic.serialize import stream_frames as _sf
                else:
                    from pyjelly.integrations.rdflib.serialize import stream_frames as _sf
                for fr in _sf(stream, iter([native])):
                    got(fr)
            elif phys == 1:
                got(stream.triple(native))
            elif phys == 2:
                got(stream.quad(native))
            else:
                if flt is not None and flt[0] == 3 and flt[2] != "tuple-too-short":
                    g = native[3]
                else:
                    g = (T.to_generic if integ == "generic" else T.to_rdflib)(st[3])
                tr = native[:3] if (flt is None or flt[2] != "tuple-too-short") else native[:2]
                if flt is not None and flt[2] == "tuple-too-long":
                    tr = tuple(native[:3]) + (native[4],)
                for fr in stream.graph(g, iter([tr])):
                    got(fr)
            accepted.append(st)
            outcomes.append(("ok", None))
        except Exception as e:  # noqa: BLE001 - catch-and-continue is the scenario
            outcomes.append(("raised", type(e).__name__))
        if i == fault_at and ns_after is not None:
            try:
                stream.namespace_declaration(ns_after[0], ns_after[1])
                accepted.append(("ns", ns_after[0], ns_after[1]))
                outcomes.append(("ok", "ns"))
            except Exception as e:  # noqa: BLE001
                outcomes.append(("raised-ns", type(e).__name__))
        i += 1
    try:
        got(stream.flow.to_stream_frame())
    except Exception as e:  # noqa: BLE001
        outcomes.append(("flush-raised", type(e).__name__))
    return {"accepted": accepted, "outcomes": outcomes, "frames": frames,
            "frames_before": frames_before if frames_before is not None else len(frames)}


def decode_frames(frames: list):
    data = b"".join(wire.enc_varint(len(f)) + f for f in frames)
    return data, refdec.decode(wire.dec_stream(data, True), strict_graphs=False)


def judge(integ: str, cfg: dict, stmts: list, fault_at: int, fault, ns_after=None, via: str = "direct"):
    """-> (witness or None, info)"""
    run = drive(integ, cfg, stmts, fault_at, fault, ns_after, via)
    out = run["outcomes"]
    info = {"rejected": out[fault_at][0] == "raised" if fault_at < len(out) else False,
            "later_calls": len(out) - fault_at - 1}
    if fault is not None and fault_at < len(out) and out[fault_at][0] == "ok":
        info["fault-accepted"] = True       # e.g. the encoder simply accepted it: nothing to judge
        return None, info
    if fault_at < len(out) and out[fault_at][0] == "harness":
        info["harness"] = True
        return None, info
    if fault is None:
        # the fault is the namespace declaration itself (a namespace IRI that cannot be encoded), made after statement fault_at
        k = next((j for j, o in enumerate(out) if o[0] == "raised-ns"), None)
        info["rejected"] = k is not None
        if k is None:
            info["fault-accepted"] = True
            return None, info
        fault = (0, None, "bad-namespace-declaration")
        later = [o for o in out[k + 1:] if o[0] in ("ok", "raised")]
    else:
        later = [o for o in out[fault_at + 1:] if o[0] in ("ok", "raised")]
    refused = bool(later) and all(o[0] == "raised" for o in later)
    info["refused"] = refused
    accepted_events = [x if x and x[0] == "ns" else ("stmt", T.norm_stmt(x)) for x in run["accepted"]]
    accepted = [e[1] for e in accepted_events if e[0] == "stmt"]
    base = {"accepted_n": len(accepted), "outcomes": [o[0] + (":" + o[1] if o[1] else "") for o in out][:40]}
    # everything produced
    try:
        data, res = decode_frames(run["frames"])
    except wire.WireError as e:
        return {**base, "clause": "output-malformed", "summary": f"wire error: {e}"}, info
    if res.violation is not None:
        return {**base, "clause": "output-invalid", "refused": refused, "bytes": data.hex(),
                "summary": f"after a rejected statement ({fault[2]} in slot {fault[0]}) the bytes produced are not a valid "
                           f"stream: {res.violation}"}, info
    got_events = [T.norm_event(e) for e in res.events]
    if ns_after is not None and [e for e in got_events if e[0] == "ns"] != [e for e in accepted_events if e[0] == "ns"]:
        return {**base, "clause": "decoded-differs-from-accepted", "refused": refused, "bytes": data.hex(),
                "summary": f"after a rejected statement ({fault[2]} in slot {fault[0]} at position {fault_at}) a namespace declaration "
                           f"was accepted, but it decodes to {[e for e in got_events if e[0] == 'ns']} instead of "
                           f"{[e for e in accepted_events if e[0] == 'ns']}"}, info
    got = [T.norm_stmt(s) for s in res.statements]
    if got != accepted:
        i = next((k for k, (a, b) in enumerate(zip(got, accepted)) if a != b), min(len(got), len(accepted)))
        return {**base, "clause": "decoded-differs-from-accepted", "refused": refused, "bytes": data.hex(),
                "summary": f"after a rejected statement ({fault[2]} in slot {fault[0]} at position {fault_at}) the stream decodes to "
                           f"{len(got)} statements, {len(accepted)} were accepted; first difference at {i}: "
                           f"{got[i] if i < len(got) else None} vs {accepted[i] if i < len(accepted) else None}"}, info
    # pyjelly's own parser must agree
    try:
        mine = [T.norm_stmt(e[1]) for e in pj.parse("generic", "flat", data) if e[0] == "stmt"] if data else []
    except Exception as e:  # noqa: BLE001
        return {**base, "clause": "output-unreadable-by-pyjelly", "bytes": data.hex(),
                "summary": f"pyjelly cannot read the stream back: {type(e).__name__}: {e}"}, info
    if mine != accepted and data:
        return {**base, "clause": "decoded-differs-from-accepted", "bytes": data.hex(),
                "summary": "pyjelly's parser decodes the produced stream to something else than the accepted statements"}, info
    # frames handed out before the failure are a valid prefix
    try:
        _d, pre = decode_frames(run["frames"][:run["frames_before"]])
        pre_st = [T.norm_stmt(s) for s in pre.statements]
        if pre.violation is not None or pre_st != accepted[:len(pre_st)]:
            return {**base, "clause": "prefix-before-failure-invalid", "summary": "frames handed out before the failure do not decode to a prefix"}, info
    except wire.WireError as e:
        return {**base, "clause": "prefix-before-failure-invalid", "summary": str(e)}, info
    return None, info


def fault_sites(integ: str, phys: int, st: tuple, datatypes_disabled: bool):
    """All (slot index, nested, cause) combinations applicable to this statement."""
    arity = len(st)
    for idx in range(arity):
        yield (idx, None, "unsupported-term")
        if datatypes_disabled and idx < 3 and (integ == "generic" or idx == 2):
            yield (idx, None, "typed-literal-datatypes-disabled")
        if integ == "generic" and idx < 3:
            yield (idx, "quoted", "unsupported-term")
            if datatypes_disabled:
                yield (idx, "quoted", "typed-literal-datatypes-disabled")
        if idx < 3 and (integ == "generic" or idx == 2):
            yield (idx, "lit" if idx == 2 else None, "unencodable-string")
        if idx == 3:
            yield (idx, None, "unencodable-string")
    yield (arity - 1, None, "tuple-too-short")
    yield (arity - 1, None, "tuple-too-long")


def make_case(rng):
    """-> (integ, cfg, stmts, dt_disabled)"""
    integ = rng.choice(["generic", "rdflib"])
    phys = rng.choice([1, 2, 3])
    arity = 3 if phys == 1 else 4
    mode = "rdf11" if integ == "rdflib" else rng.choice(["rdf11", "generic"])
    v = gen.Vocab(rng, mode, n_ns=rng.randint(1, 3), n_local=rng.randint(3, 6), n_dt=2)
    dt_disabled = rng.random() < .5
    n = rng.randint(3, 7)
    stmts = gen.statements(rng, n, arity, mode, vocab=v, p_repeat=rng.choice([.3, .6, .9]))
    if dt_disabled:
        stmts = [tuple(_strip_dt(t) for t in s) for s in stmts]
    names, prefixes, _d = gen.preset_for(rng, stmts, phys)
    cfg = {"physical": phys, "frame_size": rng.choice([1, 2, 4, 250]), "preset": (max(names, 12), prefixes, 0 if dt_disabled else 8),
           "logical": pj.FLAT_LOGICAL[phys], "delimited": True, "generalized": True, "rdf_star": True}
    return integ, cfg, stmts, dt_disabled


def run_case(ctx, rng):
    integ, cfg, stmts, dt_disabled = make_case(rng)
    phys = cfg["physical"]
    n = len(stmts)
    positions = list(range(n))
    for pos in positions:
        if ctx.out_of_time():
            return
        # follow-ups re-use the victim's terms: replace the statement after pos by a copy of the victim (valid form)
        seq = list(stmts)
        if pos + 1 < n:
            seq[pos + 1] = stmts[pos]
        sites = list(fault_sites(integ, phys, stmts[pos], dt_disabled)) + [None]
        for fault in sites:
            ns_after = None
            if fault is None:
                # no bad statement: the caller declares a namespace whose IRI cannot be encoded (prefix part new, name part bad)
                ns_after = ("nsbad", FRESH + "x\ud800")
            elif rng.random() < .2:
                # the caller goes on to declare a namespace that shares prefix/name with an IRI of the rejected statement
                iris = [t[1] for top in stmts[pos] for t in T.iter_terms(top) if t[0] == "iri"]
                if iris:
                    ns_after = ("nsx", rng.choice(iris))
            seq_all = seq
            if pos + 1 < n and (fault is None or (fault[2] == "unencodable-string" and fault[1] != "lit")):
                # the next statement re-uses the namespace the unencodable IRI introduced
                nxt = list(seq[pos + 1])
                nxt[0] = ("iri", FRESH + "a")
                seq = seq[:pos + 1] + [tuple(nxt)] + seq[pos + 2:]
            cfg_run = dict(cfg, ns=True) if ns_after else cfg
            via = rng.choice(["direct", "direct", "enroll-each", "stream-frames-each", "stream-frames-all", "flush-after-rejection"])
            if via.startswith("stream-frames") and (phys == 3 or ns_after):
                via = "enroll-each"
            seq_run, seq = seq, seq_all
            try:
                w, info = judge(integ, cfg_run, seq_run, pos, fault, ns_after, via)
            except Exception as e:  # noqa: BLE001
                ctx.inconc(f"harness error in C20 judge: {type(e).__name__}: {e}")
                continue
            if fault is None:
                fault = (0, None, "bad-namespace-declaration")
            ctx.observe("runs")
            if info.get("fault-accepted"):
                ctx.observe(f"fault-accepted:{fault[2]}")
                continue
            if info.get("harness"):
                ctx.observe("fault-not-constructible")
                continue
            ctx.observe("rejections")
            ctx.observe(f"cause:{fault[2]}")
            ctx.observe(f"continued-via:{via}")
            ctx.observe(f"slot:{'spog'[fault[0]]}{'/quoted' if fault[1] == 'quoted' else ''}")
            partial = fault[0] > 0 or fault[1] == "quoted" or fault[2] in ("tuple-too-short", "tuple-too-long") or \
                (fault[2] in ("unencodable-string", "bad-namespace-declaration"))
            if partial:
                ctx.observe("rejections-after-partial-encoding")
            if info["later_calls"]:
                ctx.observe("continued-after-rejection-or-refused")
                ctx.observe("stream-refused-further-use" if info.get("refused") else "stream-continued")
            if w is not None:
                w.update({"integration": integ, "cfg": cfg_run, "stmts": T.to_json(seq_run), "fault_at": pos,
                          "fault": list(fault), "partial": partial, "ns_after": list(ns_after) if ns_after else None, "via": via})
                if ns_after:
                    ctx.observe("violations-with-namespace-declaration-after-rejection")
                ctx.violation(w)
            ctx.case((integ, sorted(cfg.items()), seq_run, pos, fault, via), partial,
                     sample={"integration": integ, "physical": phys, "cause": fault[2], "slot": "spog"[fault[0]],
                             "nested": fault[1], "position": pos, "statements": n, "refused": info.get("refused")})


def _strip_dt(t):
    if t[0] == "lit" and t[3]:
        return ("lit", t[1], None, None)
    if t[0] == "triple":
        return ("triple", *(_strip_dt(x) for x in t[1:]))
    return t


def child_case(ctx, rng, k):
    run_case(ctx, rng)


def run_shard(ctx):
    if ctx.shard == 2 % ctx.nshards and __debug__:
        # ambient configuration of a strict caller (python -W error, pytest filterwarnings=error), restricted to warnings issued
        # by pyjelly's own modules: a warning on the rejection path must not get in the way of marking the stream failed
        import warnings
        warnings.filterwarnings("error", module=r"pyjelly(\..*)?$")
        ctx.observe("ambient:pyjelly-warnings-as-errors-shard")
        ctx.ambient = "pyjelly-warnings-as-errors"
    if ctx.shard == 1 % ctx.nshards:
        # a slice again in an interpreter started with -O: rejecting a statement / refusing a poisoned stream must not hinge on an assert
        from .. import childopt
        childopt.run(ctx, ID, 150 if ctx.tier == "quick" else 1500)
    i = 0
    while not ctx.out_of_time():
        run_case(ctx, ctx.rng(i))
        i += 1


def replay(w: dict):
    cfg = w["cfg"]
    cfg["preset"] = tuple(cfg["preset"])
    stmts = list(T.from_json(w["stmts"]))
    f = w["fault"]
    r, _info = judge(w["integration"], cfg, stmts, w["fault_at"], None if f[2] == "bad-namespace-declaration" else (f[0], f[1], f[2]),
                     tuple(w["ns_after"]) if w.get("ns_after") else None, w.get("via", "direct"))
    return r


def classify(w: dict):
    # the stream accepted a statement after a rejection that happened after >= 1 slot had been encoded
    if w.get("clause") in ("decoded-differs-from-accepted", "output-invalid", "output-unreadable-by-pyjelly") \
            and w.get("partial") and not w.get("refused"):
        return "C20/continue-after-rejection"
    return None
