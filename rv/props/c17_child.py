"""C17 child: parses a batch of hostile inputs and journals what happened to each.

usage: python -X faulthandler -m rv.props.c17_child batch.json journal.jsonl
Per input: {"i", "ev":"start"} (flushed + fsync) ... {"i", "ev":"end", outcome, cpu, steps, rows, rss_growth_kb, ...}
"""
from __future__ import annotations

import faulthandler
import io
import json
import os
import resource
import sys
import tempfile
import time
import traceback

from .. import env

env.pin()

from pyjelly.integrations.generic import parse as gparse  # noqa: E402
from pyjelly.integrations.rdflib import parse as rparse  # noqa: E402

ENTRIES = {
    "generic:flat": lambda f: sum(1 for _ in gparse.parse_jelly_flat(f)),
    "generic:grouped": lambda f: sum(len(s) for s in gparse.parse_jelly_grouped(f)),
    "generic:to_graph": lambda f: len(gparse.parse_jelly_to_graph(f)),
    "rdflib:flat": lambda f: sum(1 for _ in rparse.parse_jelly_flat(f)),
    "rdflib:grouped": lambda f: sum(len(s) for s in rparse.parse_jelly_grouped(f)),
    "rdflib:to_graph": lambda f: len(rparse.parse_jelly_to_graph(f)),
}


class Steps:
    """Deterministic logical clock: PY_START events inside pyjelly code."""

    TOOL = 5

    def __init__(self):
        self.n = 0
        self.rows = 0
        self.root = os.path.join(env.REPO, "pyjelly") + os.sep
        mon = sys.monitoring
        mon.use_tool_id(self.TOOL, "rv-steps")
        mon.register_callback(self.TOOL, mon.events.PY_START, self._start)
        mon.set_events(self.TOOL, mon.events.PY_START)

    def _start(self, code, offset):
        if not code.co_filename.startswith(self.root):
            return sys.monitoring.DISABLE
        self.n += 1
        if code.co_name == "decode_row":
            self.rows += 1
        return None


def main(batch_path: str, journal_path: str) -> int:
    with open(batch_path) as f:
        batch = json.load(f)
    as_limit = batch.get("rlimit_as")
    if as_limit:
        resource.setrlimit(resource.RLIMIT_AS, (as_limit, as_limit))
    cpu_limit = batch.get("rlimit_cpu")
    if cpu_limit:
        resource.setrlimit(resource.RLIMIT_CPU, (cpu_limit, cpu_limit + 5))
    steps = Steps()
    tmpdir = tempfile.mkdtemp(prefix="rv-c17-")
    j = open(journal_path, "a")

    def log(rec):
        j.write(json.dumps(rec) + "\n")
        j.flush()
        os.fsync(j.fileno())

    for item in batch["inputs"]:
        data = bytes.fromhex(item["hex"])
        for entry in item["entries"]:
            log({"i": item["i"], "entry": entry, "ev": "start"})
            if item.get("source") == "raw-nonseekable":
                from ..sources import DribbleRaw
                src = DribbleRaw(data, [1 << 20])                 # what a pipe / socket looks like to the parser
            elif item.get("source") == "buffered-nonseekable":
                from ..sources import DribbleRaw
                src = io.BufferedReader(DribbleRaw(data, [7, 1 << 20]))
            elif item.get("source") == "file":
                p = os.path.join(tmpdir, "in.jelly")
                with open(p, "wb") as f:
                    f.write(data)
                src = open(p, "rb")
            else:
                src = io.BytesIO(data)
            # per-input wall-clock watchdog: a hang ends THIS child (the journal shows which input was running)
            faulthandler.dump_traceback_later(batch.get("per_input_timeout", 20), exit=True)
            rss0 = resource.getrusage(resource.RUSAGE_SELF).ru_maxrss
            steps.n = steps.rows = 0
            t0 = time.process_time()
            rec = {"i": item["i"], "entry": entry, "ev": "end"}
            try:
                n = ENTRIES[entry](src)
                rec["outcome"] = "returned"
                rec["items"] = n
            except Exception as e:  # noqa: BLE001
                rec["outcome"] = "raised"
                rec["exc"] = type(e).__name__
                if isinstance(e, (MemoryError, RecursionError)):
                    tb = traceback.extract_tb(e.__traceback__)
                    rec["exc_where"] = [f"{os.path.relpath(fr.filename, env.REPO) if fr.filename.startswith(env.REPO) else fr.filename}:{fr.name}"
                                        for fr in tb[-4:]]
                    rec["exc_line"] = (tb[-1].line or "")[:120] if tb else ""
            except BaseException as e:  # noqa: BLE001 - SystemExit, KeyboardInterrupt, GeneratorExit...
                rec["outcome"] = "base-exception"
                rec["exc"] = type(e).__name__
            finally:
                try:
                    src.close()
                except Exception:  # noqa: BLE001
                    pass
            faulthandler.cancel_dump_traceback_later()
            rec["cpu"] = round(time.process_time() - t0, 4)
            rec["steps"] = steps.n
            rec["rows"] = steps.rows
            rec["rss_growth_kb"] = resource.getrusage(resource.RUSAGE_SELF).ru_maxrss - rss0
            log(rec)
    j.close()
    return 0


if __name__ == "__main__":
    sys.exit(main(sys.argv[1], sys.argv[2]))
