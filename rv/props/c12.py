"""C12 - streams are isolated and serialization is deterministic."""
from __future__ import annotations

import hashlib
import io
import json
import os
import subprocess
import sys
import threading
import time

from .. import env, gen, pj, workloads
from .. import terms as T

from pyjelly.integrations.generic import parse as gparse  # noqa: E402
from pyjelly.integrations.generic import serialize as gser  # noqa: E402
from pyjelly.integrations.rdflib import parse as rparse  # noqa: E402
from pyjelly.integrations.rdflib import serialize as rser  # noqa: E402

ID = "C12"
LEVEL = "exploration"
RULE = ("a fixed, seed-derived set of workloads (serializers of both integrations on caller-defined statement sequences: "
        "stream_frames and flat_stream_to_frames over Triple/Quad/GraphStream, the per-statement stream.triple/quad/graph API, sinks/stores with ordered namespace bindings, sharing SerializerOptions/LookupPreset objects; "
        "parsers: parse_jelly_flat and parse_jelly_grouped of both integrations) is first run solo in FRESH subprocesses under "
        "PYTHONHASHSEED 0, 1.., and 'random' - all digests must agree. Then, in one process, each workload's bytes/events must "
        "equal that reference when (a) other streams were created and half-used before, (b) 2-6 workload generators are stepped "
        "in PRNG-chosen interleavings in one thread, (c) 2-8 threads run workloads concurrently with "
        "sys.setswitchinterval(1e-6) and sys.monitoring yield injection inside pyjelly code. Non-trivial: distinct "
        "interleavings (hash of the step / thread sequence) with >= 2 live workloads; the evidence lists the hash seeds tried.")
ASSUMPTIONS = [
    "determinism is judged on caller-defined sequences only (an rdflib store's own iteration order is not the serializer's)",
    "module-level state changes are reported as observations, never as a verdict: only outputs decide",
]
ANCHORS = ["pyjelly/serialize/streams.py", "pyjelly/serialize/encode.py", "pyjelly/serialize/lookup.py",
           "pyjelly/serialize/flows.py", "pyjelly/parse/decode.py", "pyjelly/integrations/generic/serialize.py",
           "pyjelly/integrations/rdflib/serialize.py"]
MARKERS = {"stream-init": ("pyjelly/serialize/streams.py", r"self\.repeated_terms = \[None\] \* len\(Slot\)")}
REQUIRED_OBSERVED = ["solo-subprocess-digests", "interleaved-runs", "threaded-runs", "history-runs", "yield-injections"]
MIN_NONTRIVIAL = 20
MANIFEST = {
    "text": "Byte-for-byte / event-for-event comparison of every workload's output alone (fresh subprocesses under several "
            "hash seeds) versus after foreign history, interleaved with other generators in PRNG-chosen schedules, and under "
            "real threads with injected yields; distinct schedules observed are counted.",
    "note": "Schedules and hash seeds are sampled. Thread schedules are whatever the interpreter produced under the tiny "
            "switch interval plus injected sleep(0) at pyjelly line events; they are counted, not enumerated.",
    "technique": "runtime monitoring: differential output comparison across process histories, generator interleavings, threads (yield injection) and hash seeds",
}

N_WORKLOADS = 56


def plan(tier: str) -> dict:
    return {"shards": 4, "budget_s": 40} if tier == "quick" else {"shards": 16, "budget_s": 300}


# ------------------------------------------------------------------ workloads

_SHARED = {}


def shared_options(seed: int, slot: int, cfg: dict):
    """Live streams deliberately share the caller's SerializerOptions / LookupPreset objects."""
    key = (seed, slot, json.dumps(cfg, sort_keys=True, default=str))
    if key not in _SHARED:
        _SHARED[key] = pj.make_options(cfg)
    return _SHARED[key]


def make_workload(seed: int, idx: int) -> dict:
    rng = gen.rng_for("C12-workload", seed, idx)
    kind = ["ser-stream-frames", "ser-flat-frames", "parse-flat", "parse-grouped", "ser-sink-ns", "ser-lowlevel"][idx % 6]
    integ = "generic" if (idx // 6) % 2 == 0 else "rdflib"
    phys = [1, 2, 3][(idx // 12) % 3]
    if idx >= 48:
        # the caller passes NO options: whatever the integration guesses (flat/grouped frames generators, one store)
        kind = "ser-defaults"
        integ = "generic" if idx % 2 == 0 else "rdflib"
        phys = [1, 2][(idx // 2) % 2]
    if kind == "ser-flat-frames" and phys == 3:
        kind = "ser-stream-frames"
    arity = 3 if phys == 1 else 4
    v = gen.Vocab(rng, "rdf11", n_ns=3, n_local=6)
    stmts = gen.statements(rng, rng.randint(8, 30), arity, "rdf11", vocab=v)
    # every workload also carries the same two tagged literals, spelled in ITS OWN case (en / EN / En ...): equal for rdflib,
    # different on the wire
    tag = ["en", "EN", "En", "eN"][idx % 4]
    extra = [(("iri", "http://ex.org/s"), ("iri", "http://ex.org/label"), ("lit", "chat", tag, None)),
             (("iri", "http://ex.org/s"), ("iri", "http://ex.org/label"), ("lit", "hello", tag + "-gb" if idx % 3 else tag + "-GB", None))]
    # ... and a literal whose lexical form is not canonical for its datatype (what a term library does with it is the library's
    # business - but it has to do the same thing whatever else is going on in the process)
    extra.append((("iri", "http://ex.org/s"), ("iri", "http://ex.org/count"), ("lit", "02", None, "http://www.w3.org/2001/XMLSchema#integer")))
    if arity == 4:
        extra = [st + (("default",),) for st in extra]
    stmts = extra[:1] + stmts + extra[1:]
    # a handful of option sets shared between workloads (same object for equal slot)
    slot = idx % 3
    cfg = {"physical": phys, "frame_size": [2, 5, 250][slot], "preset": [(8, 2, 2), (16, 4, 4), (4000, 150, 32)][slot],
           "delimited": True, "logical": pj.FLAT_LOGICAL[phys], "generalized": False, "rdf_star": False, "ns": False,
           "stream_name": f"workload {idx}" if idx % 2 else ""}      # (every other stream is NAMED; nothing else tells them apart)
    need = gen.need_of(stmts, phys, True)
    n, p, d = cfg["preset"]
    cfg["preset"] = (max(n, need[1], 8), max(p, need[0]), max(d, need[2]))
    ns = []
    if kind == "ser-sink-ns":
        # a store/sink with ordered namespace bindings; rdflib stores get ONE statement (their iteration order is theirs)
        ns = workloads.bindings(rng, v.ns, k=rng.randint(3, 6))
        cfg["ns"] = True
        if integ == "rdflib":
            stmts = stmts[:1]
        need = gen.need_of(stmts, phys, True, [("ns", a, b) for a, b in ns])
        cfg["preset"] = (max(cfg["preset"][0], need[1], 8), max(cfg["preset"][1], need[0]), max(cfg["preset"][2], need[2]))
    return {"idx": idx, "kind": kind, "integration": integ, "cfg": cfg, "stmts": stmts, "slot": slot, "ns": ns}


def open_workload(w: dict, seed: int):
    """-> generator yielding output chunks (bytes for serializers, event tuples for parsers)."""
    integ = w["integration"]
    if w["kind"].startswith("ser"):
        mod = gser if integ == "generic" else rser
        conv = T.stmt_to_generic if integ == "generic" else T.stmt_to_rdflib
        options = shared_options(seed, w["slot"] * 10 + w["cfg"]["physical"], w["cfg"])
        src = (conv(s) for s in w["stmts"])
        if w["kind"] == "ser-defaults":
            how = w["idx"] % 3
            if how == 0:
                frames = mod.flat_stream_to_frames(src)                       # options=None
            else:
                store = pj.generic_sink_of(w["stmts"][:1 if integ == "rdflib" else None]) if integ == "generic" else \
                    pj.rdflib_store_of(w["stmts"][:1], dataset=w["cfg"]["physical"] != 1)
                frames = mod.grouped_stream_to_frames((x for x in [store]))   # options=None: guess_options(store)
            return (fr.SerializeToString(deterministic=True) for fr in frames)
        if w["kind"] == "ser-lowlevel":
            # the per-statement API: one output chunk per statement, so interleavings switch in the middle of a frame
            stream = pj.make_stream({"integration": integ, "physical": w["cfg"]["physical"]}, options)

            def lowlevel():
                stream.enroll()
                for st in w["stmts"]:
                    native = conv(st)
                    if w["cfg"]["physical"] == 1:
                        fr = stream.triple(native)
                        frames_ = [fr] if fr else []
                    elif w["cfg"]["physical"] == 2:
                        fr = stream.quad(native)
                        frames_ = [fr] if fr else []
                    else:
                        frames_ = list(stream.graph(native[3], iter([native[:3]])))
                    yield b"".join(f.SerializeToString(deterministic=True) for f in frames_)
                fr = stream.flow.to_stream_frame()
                yield fr.SerializeToString(deterministic=True) if fr else b""
            return lowlevel()
        if w["kind"] == "ser-sink-ns":
            stream = pj.make_stream({"integration": integ, "physical": w["cfg"]["physical"]}, options)
            store = pj.generic_sink_of(w["stmts"], w["ns"]) if integ == "generic" else \
                pj.rdflib_store_of(w["stmts"], w["ns"], dataset=w["cfg"]["physical"] != 1)
            frames = mod.stream_frames(stream, store)
        elif w["kind"] == "ser-flat-frames":
            frames = mod.flat_stream_to_frames(src, options)
        else:
            stream = pj.make_stream({"integration": integ, "physical": w["cfg"]["physical"]}, options)
            frames = mod.stream_frames(stream, src)
        return (fr.SerializeToString(deterministic=True) for fr in frames)
    # parsers read bytes written by the *generic* serializer in a throw-away stream
    data = w.get("_bytes")
    if data is None:
        cfg = dict(w["cfg"], integration="generic", entry="stream_frames_gen")
        data = w["_bytes"] = pj.serialize(cfg, w["stmts"])
    mod = gparse if integ == "generic" else rparse
    conv = T.event_from_generic if integ == "generic" else T.event_from_rdflib
    if w["kind"] == "parse-flat":
        return (repr(T.norm_event(conv(x))).encode() for x in mod.parse_jelly_flat(io.BytesIO(data)))
    # grouped parsing with the caller's frame-metadata ContextVar: this consumer ANNOTATES the mapping it is handed (it is typed
    # MutableMapping) - what it then sees on its next frames must still be its own stream's metadata only
    from contextvars import ContextVar
    var: ContextVar = ContextVar(f"rv_c12_meta_{w['idx']}", default=None)

    def grouped_chunks():
        for s in pj.iter_grouped(integ, data, frame_metadata=var):
            md = var.get()
            seen = sorted((k, bytes(v)) for k, v in md.items()) if md is not None else None
            if isinstance(md, dict):
                md[f"seen-by-workload-{w['idx']}"] = b"1"
            yield repr((sorted(T.norm_events(s[0]), key=repr), seen)).encode()
    return grouped_chunks()


def digest_of(chunks) -> str:
    h = hashlib.sha256()
    n = 0
    for c in chunks:
        h.update(len(c).to_bytes(4, "big"))
        h.update(c)
        n += 1
    return f"{h.hexdigest()[:24]}:{n}"


def safe_digest(make_chunks) -> str:
    """Digest of a workload's output; a workload that raises is an outcome ('RAISED:<type>'), not a harness failure."""
    try:
        return digest_of(make_chunks())
    except Exception as e:  # noqa: BLE001
        return f"RAISED:{type(e).__name__}"


def solo_digests(seed: int) -> dict:
    """Every workload ALONE: each runs in its own forked child of this freshly started interpreter, so nothing of
    pyjelly has run before it (only the imports).  A child that dies is recorded as CRASHED."""
    out = {}
    for i in range(N_WORKLOADS):
        r, w = os.pipe()
        pid = os.fork()
        if pid == 0:
            try:
                os.close(r)
                d = safe_digest(lambda: open_workload(make_workload(seed, i), seed))
                os.write(w, d.encode())
            finally:
                os._exit(0)
        os.close(w)
        buf = b""
        while True:
            chunk = os.read(r, 4096)
            if not chunk:
                break
            buf += chunk
        os.close(r)
        _pid, status = os.waitpid(pid, 0)
        out[str(i)] = buf.decode() if buf else f"CRASHED:{status}"
    return out


def reference_from_subprocess(seed: int, hashseed: str) -> dict:
    e = dict(os.environ, PYTHONHASHSEED=hashseed, PYTHONPATH=env.VERIF_DIR, PYTHONDONTWRITEBYTECODE="1", RV_NO_COVERAGE="1")
    r = subprocess.run([sys.executable, "-m", "rv.props.c12", "solo", str(seed)], cwd=env.VERIF_DIR, env=e,
                       capture_output=True, text=True, timeout=300)
    if r.returncode != 0:
        raise RuntimeError(f"solo subprocess failed: {r.stderr[-500:]}")
    return json.loads(r.stdout.strip().splitlines()[-1])


# ------------------------------------------------------------------ yield injection (sys.monitoring)

class YieldInjector:
    TOOL = 4

    def __init__(self, rng_seed: int, rate: float = 0.02):
        self.count = 0
        self.rate = rate
        self.state = rng_seed or 1
        self.root = os.path.join(env.REPO, "pyjelly") + os.sep
        self.active = False

    def _line(self, code, line):
        if not code.co_filename.startswith(self.root):
            return sys.monitoring.DISABLE
        # xorshift: cheap, no shared lock; races on self.state only make it more random
        x = self.state
        x ^= (x << 13) & 0xFFFFFFFF
        x ^= x >> 17
        x ^= (x << 5) & 0xFFFFFFFF
        self.state = x
        if (x & 0xFFFF) < self.rate * 65536:
            self.count += 1
            time.sleep(0)
        return None

    def __enter__(self):
        mon = sys.monitoring
        try:
            mon.use_tool_id(self.TOOL, "rv-yield")
        except ValueError:
            return self
        mon.register_callback(self.TOOL, mon.events.LINE, self._line)
        mon.set_events(self.TOOL, mon.events.LINE)
        self.active = True
        return self

    def __exit__(self, *a):
        if self.active:
            mon = sys.monitoring
            mon.set_events(self.TOOL, 0)
            mon.register_callback(self.TOOL, mon.events.LINE, None)
            mon.free_tool_id(self.TOOL)


# ------------------------------------------------------------------ scenarios

def module_state_snapshot() -> dict:
    """repr of module-/class-level mutable containers in pyjelly (observation only)."""
    out = {}
    for name, mod in sorted(sys.modules.items()):
        if not (name == "pyjelly" or name.startswith("pyjelly.")) or name.startswith("pyjelly.jelly"):
            continue
        for attr, val in sorted(vars(mod).items()):
            if attr.startswith("__"):
                continue
            if isinstance(val, (dict, list, set)):
                out[f"{name}.{attr}"] = repr(val)[:2000]
            elif isinstance(val, type) and val.__module__ == name:
                for a2, v2 in sorted(vars(val).items()):
                    if isinstance(v2, (dict, list, set)) and not a2.startswith("__"):
                        out[f"{name}.{val.__name__}.{a2}"] = repr(v2)[:2000]
    return out


_EXT_N = [0]


def user_extension_history(rng):
    """What an application that extends the library leaves behind: it DEFINES subclasses of the library's flow, stream,
    encoder and lookup classes (class creation runs __init_subclass__ / metaclass hooks) and runs an unrelated stream with
    them.  None of that may change what default-configured streams write afterwards."""
    from pyjelly.serialize import flows as F
    from pyjelly.serialize import lookup as L
    from pyjelly.serialize import streams as S

    _EXT_N[0] += 1
    base_flow = rng.choice([F.FlatTriplesFrameFlow, F.FlatQuadsFrameFlow, F.GraphsFrameFlow, F.DatasetsFrameFlow,
                            F.BoundedFrameFlow, F.ManualFrameFlow])

    class EveryRowFlow(base_flow):                       # a user flow that cuts a frame after every statement
        def frame_from_bounds(self):
            return self.to_stream_frame()

    class UserTripleStream(S.TripleStream):
        pass

    class UserQuadStream(S.QuadStream):
        pass

    class UserLookup(L.Lookup):
        pass

    class UserEncoder(gser.GenericSinkTermEncoder):
        pass

    class UserRdflibEncoder(rser.RDFLibTermEncoder):
        pass

    kept = [EveryRowFlow, UserTripleStream, UserQuadStream, UserLookup, UserEncoder, UserRdflibEncoder]
    # ... and it takes the library's GUESSED options as the starting point for its own configuration
    try:
        import rdflib
        from pyjelly.options import LookupPreset
        for store, mod in ((rdflib.Graph(), rser), (rdflib.Dataset(), rser), (pj.generic_sink_of([]), gser)):
            o = mod.guess_options(store)
            o.frame_size = rng.choice([1, 5])
            o.lookup_preset = LookupPreset.small()
            kept.append(o)
    except Exception:  # noqa: BLE001
        pass
    # ... and uses them for an unrelated stream
    try:
        from pyjelly import jelly as _j
        if issubclass(base_flow, (F.FlatTriplesFrameFlow, F.GraphsFrameFlow)) or base_flow in (F.BoundedFrameFlow, F.ManualFrameFlow):
            flow = EveryRowFlow(logical_type=_j.LOGICAL_STREAM_TYPE_FLAT_TRIPLES) if base_flow in (F.BoundedFrameFlow, F.ManualFrameFlow) \
                else EveryRowFlow()
            opts = S.SerializerOptions(flow=flow, logical_type=flow.logical_type)
            st = UserTripleStream(encoder=UserEncoder(lookup_preset=opts.lookup_preset), options=opts)
            conv = T.stmt_to_generic
            list(gser.stream_frames(st, (conv(x) for x in [(("iri", "urn:u:a"), ("iri", "urn:u:b"), ("lit", str(k), None, None))
                                                            for k in range(3)])))
    except Exception:  # noqa: BLE001 - the unrelated stream is only history; what it does is not judged
        pass
    return kept


def history_scenario(ctx, rng, seed, ref):
    """(a) other streams created and half-used before."""
    if rng.random() < .5:
        ctx._keep = getattr(ctx, "_keep", [])
        ctx._keep.append(user_extension_history(rng))
        ctx.observe("history-with-user-subclasses-defined")
    for _ in range(rng.randint(2, 8)):
        w = make_workload(seed, rng.randrange(N_WORKLOADS))
        it = open_workload(w, seed)
        for _k in range(rng.randint(0, 5)):
            if next(it, None) is None:
                break
        # abandoned half-way (kept alive until the end of the scenario)
        ctx._keep = getattr(ctx, "_keep", [])
        ctx._keep.append(it)
    idx = rng.randrange(N_WORKLOADS)
    got = safe_digest(lambda: open_workload(make_workload(seed, idx), seed))
    ctx.observe("history-runs")
    if got != ref[str(idx)]:
        ctx.violation({"clause": "output-depends-on-history", "workload": idx, "scenario": "history",
                       "summary": f"workload {idx} ({_desc(seed, idx)}) gives {got} after other streams were created and "
                                  f"half-used; solo reference {ref[str(idx)]}"})
    ctx._keep = ctx._keep[-6:]
    ctx.case(("hist", idx, rng.random()), False)


def _desc(seed, idx):
    w = make_workload(seed, idx)
    return f"{w['kind']} {w['integration']} physical={w['cfg']['physical']}"


def interleave_scenario(ctx, rng, seed, ref):
    """(b) several generators stepped in a PRNG-chosen interleaving, one thread."""
    k = rng.randint(2, 6)
    idxs = [rng.randrange(N_WORKLOADS) for _ in range(k)]
    its = [open_workload(make_workload(seed, i), seed) for i in idxs]
    outs = [[] for _ in idxs]
    raised = [None] * k
    live = list(range(k))
    order = []
    while live:
        j = rng.choice(live)
        burst = rng.choice([1, 1, 1, 2, 5])
        for _ in range(burst):
            try:
                c = next(its[j], None)
            except Exception as e:  # noqa: BLE001 - a workload that raises is an outcome (it does not raise alone)
                raised[j] = f"RAISED:{type(e).__name__}"
                c = None
            if c is None:
                live.remove(j)
                break
            outs[j].append(c)
            order.append(j)
    ctx.observe("interleaved-runs")
    sched = hashlib.sha256(repr((idxs, order)).encode()).hexdigest()[:16]
    for j, i in enumerate(idxs):
        got = raised[j] or digest_of(outs[j])
        if got != ref[str(i)]:
            ctx.violation({"clause": "output-depends-on-interleaving", "workload": i, "scenario": "interleave",
                           "workloads": idxs, "order": order[:200],
                           "summary": f"workload {i} ({_desc(seed, i)}) interleaved with {[x for x in idxs if x != i]} gives "
                                      f"{got}; solo reference {ref[str(i)]}"})
    ctx.case(sched, k >= 2, sample={"scenario": "interleave", "workloads": idxs, "schedule_prefix": order[:30], "steps": len(order)})


def thread_scenario(ctx, rng, seed, ref):
    """(c) real threads, tiny switch interval, yield injection inside pyjelly code."""
    k = rng.randint(2, 8)
    idxs = [rng.randrange(N_WORKLOADS) for _ in range(k)]
    results = [None] * k
    traces = [[] for _ in range(k)]
    errors = [None] * k
    start = threading.Barrier(k)
    clock = [0]

    def run(j):
        try:
            start.wait(timeout=20)
            it = open_workload(make_workload(seed, idxs[j]), seed)
            chunks = []
            for c in it:
                chunks.append(c)
                clock[0] += 1                     # unsynchronised on purpose: only used to fingerprint the schedule
                traces[j].append(clock[0])
            results[j] = digest_of(chunks)
        except Exception as e:  # noqa: BLE001
            errors[j] = f"{type(e).__name__}: {e}"

    old = sys.getswitchinterval()
    sys.setswitchinterval(1e-6)
    try:
        with YieldInjector(rng.getrandbits(31), rate=rng.choice([0.01, 0.05, 0.2])) as inj:
            ts = [threading.Thread(target=run, args=(j,), daemon=True) for j in range(k)]
            for t in ts:
                t.start()
            for t in ts:
                t.join(timeout=60)
            stuck = any(t.is_alive() for t in ts)
        ctx.observe("yield-injections", inj.count)
    finally:
        sys.setswitchinterval(old)
    ctx.observe("threaded-runs")
    if stuck:
        ctx.inconc("a workload thread did not finish within the watchdog")
        return
    # fingerprint of the observed schedule: the merged order of per-thread step stamps
    merged = sorted((s, j) for j, tr in enumerate(traces) for s in tr)
    switches = sum(1 for a, b in zip(merged, merged[1:]) if a[1] != b[1])
    ctx.observe("thread-switches-observed", switches)
    sched = hashlib.sha256(repr((idxs, [j for _s, j in merged])).encode()).hexdigest()[:16]
    for j, i in enumerate(idxs):
        if errors[j] is not None:
            ctx.violation({"clause": "workload-raised-under-threads", "workload": i, "scenario": "threads", "workloads": idxs,
                           "summary": f"workload {i} ({_desc(seed, i)}) raised {errors[j]} while {k - 1} other workloads ran concurrently"})
        elif results[j] != ref[str(i)]:
            ctx.violation({"clause": "output-depends-on-thread-schedule", "workload": i, "scenario": "threads", "workloads": idxs,
                           "summary": f"workload {i} ({_desc(seed, i)}) concurrently with {[x for x in idxs if x != i]} gives "
                                      f"{results[j]}; solo reference {ref[str(i)]}"})
    ctx.case(sched, switches >= 1, sample={"scenario": "threads", "workloads": idxs, "switches": switches,
                                           "schedule_prefix": [j for _s, j in merged][:30]})


def instance_reuse_scenario(ctx, rng, seed):
    """The same statements and options through the SAME serializer object twice (an RDFLibJellySerializer instance, a
    generic sink's serialize()): the second output must be byte-identical to the first."""
    from pyjelly.integrations.rdflib.serialize import RDFLibJellySerializer
    idx = rng.randrange(N_WORKLOADS)
    w = make_workload(seed, idx)
    phys = 1 if w["cfg"]["physical"] == 1 else 2
    stmts = [st if phys == 2 or len(st) == 3 else st for st in w["stmts"]]
    stmts = [st[:3] for st in stmts] if phys == 1 else [st if len(st) == 4 else (*st, ("default",)) for st in stmts]
    outs = {}
    try:
        store = pj.rdflib_store_of(stmts[:1], dataset=phys != 1)       # one statement: store order cannot interfere
        ser = RDFLibJellySerializer(store)
        a, b = io.BytesIO(), io.BytesIO()
        if rng.random() < .5:
            ser.serialize(a)
            ser.serialize(b)
        else:
            opts = pj.make_options(dict(w["cfg"], physical=phys, logical=pj.FLAT_LOGICAL[phys], preset=(64, 16, 16)))
            ser.serialize(a, options=opts)
            ser.serialize(b, options=opts)
        outs["RDFLibJellySerializer.serialize"] = (a.getvalue(), b.getvalue())
        sink = pj.generic_sink_of(stmts)
        a, b = io.BytesIO(), io.BytesIO()
        sink.serialize(a)
        sink.serialize(b)
        outs["GenericStatementSink.serialize"] = (a.getvalue(), b.getvalue())
    except Exception as e:  # noqa: BLE001
        ctx.violation({"clause": "second-use-of-instance-raised", "workload": idx, "scenario": "instance-reuse",
                       "summary": f"using a serializer object a second time raised {type(e).__name__}: {e}"})
        return
    ctx.observe("instance-reuse-runs")
    for what, (x, y) in outs.items():
        if x != y:
            ctx.violation({"clause": "output-depends-on-history", "workload": idx, "scenario": "instance-reuse",
                           "summary": f"{what} called twice on one object with the same data and options: {len(x)} bytes, then {len(y)} "
                                      f"different bytes"})
    ctx.case(("instance-reuse", idx, rng.random()), False)


def run_shard(ctx):
    seed = ctx.seed
    # (d) solo digests from fresh subprocesses under several hash seeds
    hashseeds = ["0", str(ctx.shard + 1), "random"]
    refs = {}
    for hs in hashseeds:
        try:
            refs[hs] = reference_from_subprocess(seed, hs)
        except Exception as e:  # noqa: BLE001
            ctx.inconc(f"solo subprocess (PYTHONHASHSEED={hs}) failed: {e}")
            return
        ctx.observe("solo-subprocess-digests", len(refs[hs]))
        ctx.observe(f"hashseed:{hs}")
    ref = refs["0"]
    for hs, r in refs.items():
        for i in range(N_WORKLOADS):
            if r[str(i)] != ref[str(i)]:
                ctx.violation({"clause": "output-depends-on-hash-seed", "workload": i, "scenario": "hashseed", "hashseed": hs,
                               "summary": f"workload {i} ({_desc(seed, i)}): digest {r[str(i)]} under PYTHONHASHSEED={hs}, "
                                          f"{ref[str(i)]} under 0"})
    for i in range(N_WORKLOADS):
        ctx.case(("solo", i, tuple(hashseeds)), False)
    before = module_state_snapshot()
    n = 0
    while not ctx.out_of_time():
        rng = ctx.rng("scenario", n)
        n += 1
        if n % 9 == 4:
            instance_reuse_scenario(ctx, rng, seed)
            continue
        [history_scenario, interleave_scenario, interleave_scenario, thread_scenario][n % 4](ctx, rng, seed, ref)
    after = module_state_snapshot()
    changed = sorted(k for k in set(before) | set(after) if before.get(k) != after.get(k))
    ctx.extra["module_state_changed"] = changed
    ctx.extra["hashseeds"] = hashseeds
    ctx.observe("module-level-containers-watched", len(before))


def finalize(merged, tier, seed):
    pass


EVIDENCE_EXTRA = {
    "hash_seeds_tried": lambda m: sorted({h for ex in m["extra"] for h in ex.get("hashseeds", [])}),
    "module_level_state_changed_during_run (observation)": lambda m: sorted({k for ex in m["extra"] for k in ex.get("module_state_changed", [])}),
}


def replay(w: dict):
    seed = int(os.environ.get("VERIF_SEED", "0"))
    ref = reference_from_subprocess(seed, "0")
    i = w["workload"]
    if w["scenario"] == "instance-reuse":
        return {"clause": w["clause"], "summary": "re-run ./check C12 with the same VERIF_SEED"}
    if w["scenario"] == "hashseed":
        other = reference_from_subprocess(seed, w["hashseed"] if w["hashseed"] != "random" else "12345")
        return None if other[str(i)] == ref[str(i)] else {"clause": w["clause"], "summary": "digest differs between hash seeds"}
    if w["scenario"] == "interleave":
        idxs = w["workloads"]
        its = [open_workload(make_workload(seed, x), seed) for x in idxs]
        outs = [[] for _ in idxs]
        for j in w["order"]:
            c = next(its[j], None)
            if c is not None:
                outs[j].append(c)
        for j, it in enumerate(its):
            outs[j].extend(it)
        for j, x in enumerate(idxs):
            if digest_of(outs[j]) != ref[str(x)]:
                return {"clause": w["clause"], "summary": f"workload {x} differs under the recorded interleaving"}
        return None
    return {"clause": w["clause"], "summary": "thread/history witnesses are reproduced by re-running ./check C12 with the same VERIF_SEED"}


def classify(w: dict):
    return None


if __name__ == "__main__":
    if len(sys.argv) >= 3 and sys.argv[1] == "solo":
        print(json.dumps(solo_digests(int(sys.argv[2]))))
