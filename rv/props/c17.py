"""C17 - arbitrary bytes cannot crash, hang or balloon the parser."""
from __future__ import annotations

import json
import os
import shutil
import subprocess
import sys
import tempfile

from .. import env, gen, wire, workloads

ID = "C17"
LEVEL = "exploration"
RULE = ("hostile inputs - random bytes (several distributions, 0..64 KiB), valid streams with bit flips / byte inserts / deletes "
        "/ splices / truncation, and structure-aware hostile streams from the independent wire encoder (declared frame, row and "
        "string lengths up to 2^63, table sizes up to 2^32, 10^5 entries, quoted triples nested past the protobuf recursion "
        "limit, options rows in odd places, stream names / strings holding format directives with huge field widths on error paths, version-2 streams declaring one prefix label 3-200 times with different namespaces, gzip/zlib/bz2/xz/deflate members that would inflate to 0.3-64 MB, options rows with enum/version values the schema does not name, well-formed streams whose strings (language tag, lexical form, datatype, name, prefix, blank-node label, stream name, namespace name) are long single-class runs ending in one odd character, 10^3..10^6 empty frames alone and in front of a well-formed frame (3*10^5 of them always through all six entry points, 10^6 through two), invalid UTF-8, unknown fields, groups, one 16-64 KiB prefix (or name) entry combined with thousands of short entries overwriting 8 slots of the other table - through the entry points that keep no statement; 200-400 namespace declarations followed by 3000-20000 tiny frames; one frame of 10^5 - 3*10^5 four-byte rows; a name / prefix / lexical form of 2000-10000 combining marks in non-canonical order used by hundreds of statements) - are fed from BytesIO, "
        "real files and non-seekable raw / buffered sources to the six parse entry points inside a watchdogged child process with faulthandler. Per input the "
        "child journals start/end, outcome, CPU time, a logical step count (sys.monitoring PY_START inside pyjelly) and the "
        "growth of the resident high-water mark. Violations: interpreter killed by a signal; a non-Exception BaseException; "
        "CPU > 2 s + 1 ms/byte or steps > 20000 + 400/byte (re-checked alone with a 10x budget before being believed); "
        "for five input families that can be made any size (one frame of n four-byte rows, n name entries in one frame, n one-row frames, one integer-typed literal of n digits, a quoted triple of n/40 nodes repeated by n rows) the same shape at k*n (k = 4, or 16) may cost at most 2k times the CPU of n (judged only when the large run takes >= 3 s, and only after a second measurement); "
        "resident growth > 32 MiB + 1 KiB per input byte (memory proportional to the ACTUAL input, e.g. 10^5 skipped empty frames, is allowed); a MemoryError/RecursionError raised from pyjelly code. Non-trivial: inputs that "
        "got past framing (>= 1 row decoded) before failing or returning; distinct by (input hash, entry point).")
ASSUMPTIONS = [
    "the verdict is on RESIDENT memory: CPython's BufferedReader.read(n) reserves n bytes of address space for a declared frame length from a real file without touching it; the largest such request is reported as an observation",
    "the child runs under RLIMIT_AS = 8 GiB so that a runaway allocation fails inside the child instead of taking the sandbox down",
]
ANCHORS = ["pyjelly/parse/ioutils.py", "pyjelly/parse/decode.py", "pyjelly/parse/lookup.py", "pyjelly/options.py",
           "pyjelly/integrations/generic/parse.py", "pyjelly/integrations/rdflib/parse.py"]
MARKERS = {
    "max-lookup-guard": ("pyjelly/parse/lookup.py", r"lookup size cannot be larger than"),
    "no-non-empty-frames": ("pyjelly/parse/ioutils.py", r"No non-empty frames found"),
}
REQUIRED_OBSERVED = ["inputs-finished", "class:random", "class:mutated", "class:hostile", "rows-decoded-inputs"]
MIN_NONTRIVIAL = 30
MANIFEST = {
    "text": "Process-level monitor: every hostile input runs in a journalled child under faulthandler, a CPU-time budget, a "
            "deterministic step counter and a resident-memory high-water check, with a parent watchdog that re-runs suspects "
            "alone before calling a hang.",
    "note": "Sampled inputs (classes and counts in the evidence). No sanitizer build of CPython/upb is possible here; native "
            "crashes are observed only as the child dying by a signal.",
    "technique": "runtime monitoring: watchdogged child process per batch, journal of outcome / CPU / logical steps / RSS growth per hostile input",
}

ENTRY_NAMES = ["generic:flat", "generic:grouped", "generic:to_graph", "rdflib:flat", "rdflib:grouped", "rdflib:to_graph"]
AS_LIMIT = 8 << 30


def plan(tier: str) -> dict:
    return {"shards": 4, "budget_s": 45} if tier == "quick" else {"shards": 16, "budget_s": 400}


# ------------------------------------------------------------------ input generators

def random_bytes(rng):
    n = rng.choice([0, 1, 2, 3, 5, 17, 64, 300, 2000, rng.randint(0, 65536)])
    mode = rng.choice(["uniform", "low", "tags", "0a"])
    if mode == "uniform":
        return rng.randbytes(n)
    if mode == "low":
        return bytes(rng.randrange(0, 16) for _ in range(min(n, 4000)))
    if mode == "0a":
        return bytes(rng.choice([0x0A, 0x0A, 0x00, 0x01, 0x08, 0x12, 0xFF]) for _ in range(min(n, 4000)))
    return bytes(rng.choice([0x0A, 0x12, 0x1A, 0x22, 0x2A, 0x32, 0x4A, 0x52, 0x5A, 0x7A, 0x08, 0x10, 0x02, 0x05])
                 if rng.random() < .5 else rng.randrange(256) for _ in range(min(n, 4000)))


def mutated(rng):
    vs = workloads.valid_stream(rng, mode="generic", max_len=12)
    if vs is None:
        return b""
    b = bytearray(vs["data"])
    for _ in range(rng.randint(1, 4)):
        if not b:
            break
        op = rng.choice(["flip", "insert", "delete", "splice", "truncate", "dup", "set"])
        i = rng.randrange(len(b))
        if op == "flip":
            b[i] ^= 1 << rng.randrange(8)
        elif op == "insert":
            b[i:i] = rng.randbytes(rng.randint(1, 4))
        elif op == "delete":
            del b[i:i + rng.randint(1, 4)]
        elif op == "splice":
            j = rng.randrange(len(b))
            b[i:i] = b[j:j + rng.randint(1, 30)]
        elif op == "truncate":
            del b[i:]
        elif op == "dup":
            b += b[i:]
        else:
            b[i] = rng.choice([0x00, 0xFF, 0x7F, 0x80, 0x0A])
    return bytes(b)


def _opts(**kw):
    o = {"stream_name": "", "physical_type": 1, "generalized_statements": True, "rdf_star": True,
         "max_name_table_size": 16, "max_prefix_table_size": 8, "max_datatype_table_size": 8, "logical_type": 1, "version": 1}
    o.update(kw)
    return o


def _nested(depth):
    t = {"s": ("bnode", "a"), "p": ("bnode", "b"), "o": ("bnode", "c")}
    for _ in range(depth):
        t = {"s": ("triple", t), "p": ("bnode", "b"), "o": ("bnode", "c")}
    return t


def hostile(rng):
    """-> (name, bytes)"""
    big = rng.choice([1 << 20, (1 << 31) - 1, 1 << 31, 1 << 32, 1 << 40, 1 << 62, (1 << 63) - 1, (1 << 64) - 1])
    kind = rng.choice(["frame-length", "row-length", "string-length", "table-size", "many-entries", "deep-nesting",
                       "odd-options", "empty-frames", "bad-utf8", "unknown-fields", "many-metadata", "nondelimited-huge",
                       "entry-id-huge", "ref-huge", "options-repeat-flood", "awkward-strings", "awkward-strings", "enum-values", "compressed-bomb", "namespace-redeclared", "format-directive", "long-entry-many-slots", "declarations-then-many-frames", "one-huge-frame", "combining-marks"])
    head = wire.enc_stream([{"rows": [("options", _opts())]}], True)
    if kind == "frame-length":
        return kind, rng.choice([b"", head]) + wire.enc_varint(big) + rng.randbytes(rng.randint(0, 40))
    if kind == "row-length":
        body = wire.tag(1, 2) + wire.enc_varint(big) + rng.randbytes(rng.randint(0, 20))
        return kind, wire.enc_varint(len(body)) + body
    if kind == "string-length":
        row = wire.tag(9, 2) + wire.enc_varint(6) + wire.tag(2, 2) + wire.enc_varint(big) + b"abc"
        fr = wire.f_bytes(1, wire.enc_row(("options", _opts()))) + wire.f_bytes(1, row)
        return kind, wire.enc_varint(len(fr)) + fr
    if kind == "table-size":
        which = rng.choice(["max_name_table_size", "max_prefix_table_size", "max_datatype_table_size"])
        size = rng.choice([4097, 10 ** 6, (1 << 31) - 1, (1 << 32) - 1, 1 << 28])
        rows = [("options", _opts(**{which: size})), ("name", {"id": 0, "value": "x"}),
                ("triple", {"s": ("iri", 0, 0), "p": ("iri", 0, 1), "o": ("iri", 0, 1)})]
        return kind, wire.enc_stream([{"rows": rows}], rng.random() < .8)
    if kind == "many-entries":
        n = rng.choice([1000, 20000, 100000])
        rows = [("options", _opts(max_name_table_size=4096))] + [("name", {"id": (k % 4096) + 1, "value": "n"}) for k in range(n)]
        return kind, wire.enc_stream([{"rows": rows}], True)
    if kind == "deep-nesting":
        depth = rng.choice([50, 90, 99, 101, 150, 400])
        rows = [("options", _opts()), ("triple", _nested(depth))]
        return kind, wire.enc_stream([{"rows": rows}], True)
    if kind == "odd-options":
        rows = [("name", {"id": 0, "value": "x"}), ("options", _opts()), ("options", _opts(physical_type=2)),
                ("triple", {"s": ("bnode", "a"), "p": ("bnode", "b"), "o": ("bnode", "c")}), ("options", _opts(version=9))]
        rng.shuffle(rows)
        return kind, wire.enc_stream([{"rows": rows[:rng.randint(1, 5)]}, {"rows": rows}], True)
    if kind == "empty-frames":
        n = rng.choice([1000, 100000, 300_000, 1_000_000])
        tail = rng.choice([b"", head, wire.enc_varint(big), valid_tail()])
        return kind, b"\x00" * n + tail
    if kind == "bad-utf8":
        row = wire.tag(9, 2) + wire.enc_varint(6) + wire.tag(2, 2) + wire.enc_varint(4) + b"\xff\xfe\xc0\x80"
        fr = wire.f_bytes(1, wire.enc_row(("options", _opts()))) + wire.f_bytes(1, row)
        return kind, wire.enc_varint(len(fr)) + fr
    if kind == "unknown-fields":
        junk = wire.f_varint(99, 7) + wire.tag(50, 3) + wire.tag(50, 4) + wire.f_bytes(77, b"zzz") + wire.tag(3, 1) + b"12345678"
        fr = wire.f_bytes(1, wire.enc_row(("options", _opts())) + junk) + junk + \
            wire.f_bytes(1, wire.enc_row(("triple", {"s": ("bnode", "a"), "p": ("bnode", "b"), "o": ("bnode", "c")})))
        return kind, wire.enc_varint(len(fr)) + fr
    if kind == "many-metadata":
        frames = [{"rows": [("options", _opts())], "metadata": [(f"k{i}", b"v" * 10) for i in range(500)]}] + \
            [{"rows": [], "metadata": [("k", b"v")]} for _ in range(2000)]
        return kind, wire.enc_stream(frames, True)
    if kind == "format-directive":
        # strings that mean something to a templating / formatting layer (str.format, %-formatting, string.Template),
        # asking for a huge field width - on paths that report an error (unsupported or mismatching stream types)
        w = rng.choice([200_000_000, 2_000_000_000])
        directive = rng.choice(["{physical_type:>%d}" % w, "{logical_type:>%d}" % w, "{0:>%d}" % w, "{:>%d}" % w, "{name:>%d}" % w,
                                "%%%dd" % w, "%%(x)%ds" % w, "${x}", "{0.__class__}", "{" * 50])
        o = _opts(stream_name=directive, physical_type=rng.choice([0, 0, 1, 4]), logical_type=rng.choice([0, 1, 3, 2, 5]))
        rows = [("options", o), ("name", {"id": 0, "value": directive}),
                ("triple", {"s": ("iri", 0, 0), "p": ("iri", 0, 1), "o": ("lit", directive, "lang", "en")})]
        return kind, wire.enc_stream([{"rows": rows}], True)
    if kind == "namespace-redeclared":
        # a well-formed version-2 stream that declares the same prefix label again and again with other namespaces,
        # and labels that look like what a renaming scheme would produce (ex, ex1, ex2, ex_1 ...)
        k = rng.choice([3, 4, 10, 200])
        base = rng.choice(["ex", "", "ns", "a"])
        labels = [base] * k if rng.random() < .5 else [rng.choice([base, base + "1", base + "2", base + "_1", base + "11"]) for _ in range(k)]
        rows = [("options", _opts(version=2, max_prefix_table_size=8))]
        for i, lab in enumerate(labels):
            rows += [("prefix", {"id": (i % 8) + 1, "value": f"http://e/{i}/"}), ("name", {"id": (i % 8) + 1, "value": ""}),
                     ("namespace", {"name": lab, "value": ("iri", (i % 8) + 1, (i % 8) + 1)})]
        rows.append(("triple", {"s": ("iri", 1, 1), "p": ("iri", 1, 1), "o": ("bnode", "b")}))
        if rng.random() < .5:
            cut = rng.randint(1, len(rows) - 1)
            return kind, wire.enc_stream([{"rows": rows[:cut]}, {"rows": rows[cut:]}], True)
        return kind, wire.enc_stream([{"rows": rows}], True)
    if kind == "compressed-bomb":
        # a few hundred bytes that INFLATE to megabytes if anything on the way decompresses them: Jelly has no compressed
        # container, so the parser must treat them as the (invalid) bytes they are
        import bz2
        import gzip
        import lzma
        import zlib
        payload = rng.choice([b"\x00" * 300_000, b"\x00" * 3_000_000,
                              b"\x0a\x7f" + b"\x0a" * (64 << 20) if rng.random() < .3 else b"\x00" * 1_000_000,
                              wire.enc_stream([{"rows": [("options", _opts())]}], True) + b"\x00" * 2_000_000])
        how = rng.choice(["gzip", "gzip", "zlib", "bz2", "xz", "raw-deflate"])
        if how == "gzip":
            data = gzip.compress(payload, mtime=0)
        elif how == "zlib":
            data = zlib.compress(payload, 9)
        elif how == "bz2":
            data = bz2.compress(payload)
        elif how == "xz":
            data = lzma.compress(payload)
        else:
            co = zlib.compressobj(9, zlib.DEFLATED, -15)
            data = co.compress(payload) + co.flush()
        return kind, data
    if kind == "enum-values":
        # well-formed options row whose enum / version fields hold values the schema does not name (proto3 enums are open)
        odd = [5, 6, 7, 12, 15, 23, 77, 104, 113, 115, 214, 1000, (1 << 31) - 1, -1]
        o = _opts()
        which = rng.choice(["logical", "logical", "physical", "both", "version"])
        if which in ("logical", "both"):
            o["logical_type"] = rng.choice(odd)
        if which in ("physical", "both"):
            o["physical_type"] = rng.choice([0, 4, 5, 99, (1 << 31) - 1, -1])
        if which == "version":
            o["version"] = rng.choice([0, 3, 255, (1 << 31) - 1, -1])
        rows = [("options", o), ("name", {"id": 0, "value": "urn:x"}),
                ("triple", {"s": ("iri", 0, 0), "p": ("iri", 0, 1), "o": ("bnode", "b")})]
        return kind, wire.enc_stream([{"rows": rows}], rng.random() < .8)
    if kind == "awkward-strings":
        # well-formed stream whose STRINGS are what trips pattern matching / validation code: long runs of one class of
        # character with a single character of another class at the end (or start), in every string-valued field
        n = rng.choice([24, 30, 48, 64, 200, 3000])
        run = rng.choice(["a", "a", "A1", "a-", "a_", "-", " ", "\t", "0", "é", ".", "/", "#", ":", "%41"])
        odd = rng.choice(["!", "!", " ", "\n", "\x00", "é", "<", ">", "\"", "\\", "{", "@", "-", "_"])
        bait = (run * n)[:max(n, len(run))] + odd
        if rng.random() < .2:
            bait = odd + bait
        where = rng.choice(["lang", "lang", "lex", "datatype", "name", "prefix", "bnode", "stream-name", "ns-name", "all"])
        def pick(w, default):
            return bait if where in (w, "all") else default
        rows = [("options", _opts(stream_name=pick("stream-name", ""), max_prefix_table_size=8, max_datatype_table_size=8)),
                ("prefix", {"id": 0, "value": pick("prefix", "http://e/")}), ("name", {"id": 0, "value": pick("name", "x")}),
                ("datatype", {"id": 0, "value": pick("datatype", "http://e/dt")})]
        if where in ("ns-name", "all"):
            rows[0] = ("options", _opts(stream_name=pick("stream-name", ""), max_prefix_table_size=8, max_datatype_table_size=8, version=2))
            rows.append(("namespace", {"name": bait, "value": ("iri", 1, 1)}))
        rows.append(("triple", {"s": ("bnode", pick("bnode", "b")), "p": ("iri", 1, 0), "o": ("lit", pick("lex", "v"), "lang", pick("lang", "en"))}))
        rows.append(("triple", {"s": ("iri", 0, 1), "p": ("iri", 0, 1), "o": ("lit", pick("lex", "v"), "dt", 1)}))
        return kind, wire.enc_stream([{"rows": rows}], True)
    if kind == "nondelimited-huge":
        return kind, b"\x0a" + wire.enc_varint(big) + b"\x0a\x02\x10\x01"
    if kind == "entry-id-huge":
        rows = [("options", _opts()), ("name", {"id": rng.choice([17, 1 << 20, (1 << 32) - 1]), "value": "x"})]
        return kind, wire.enc_stream([{"rows": rows}], True)
    if kind == "ref-huge":
        rows = [("options", _opts()), ("name", {"id": 0, "value": "x"}),
                ("triple", {"s": ("iri", rng.choice([0, 9, (1 << 32) - 1]), rng.choice([17, (1 << 32) - 1])),
                            "p": ("bnode", "b"), "o": ("lit", "x", "dt", rng.choice([0, 9, (1 << 32) - 1]))})]
        return kind, wire.enc_stream([{"rows": rows}], True)
    if kind == "combining-marks":
        return kind, combining_marks(rng.choice([500, 2500]), rng.choice([300, 1500]), rng.choice(["name", "prefix", "literal"]))
    if kind == "one-huge-frame":
        return kind, one_huge_frame(rng.choice([100_000, 300_000]))
    if kind == "declarations-then-many-frames":
        return kind, declarations_then_frames(rng.choice([200, 300, 400]), rng.choice([3000, 20000]), rng.choice(["empty", "empty", "metadata"]))
    if kind == "long-entry-many-slots":
        return kind, long_entry_many_slots(rng.choice([16, 32, 48]) << 10, rng.choice([1000, 3000]), rng.choice(["prefix", "prefix", "name"]))
    rows = [("options", _opts())] * rng.choice([100, 5000])
    return "options-repeat-flood", wire.enc_stream([{"rows": rows}], True)


def combining_marks(k: int, refs: int, where: str) -> bytes:
    """A string of 4k combining marks in NON-canonical order (U+0315 U+0300 U+0316 U+0334 repeated - the worst case of Unicode
    canonical reordering) as a name / prefix entry or a lexical form, used by `refs` statements: the parser has no business
    normalising text, least of all once per reference."""
    marks = "a" + "\u0315\u0300\u0316\u0334" * k
    rows = [("options", _opts(max_prefix_table_size=8, max_name_table_size=8)),
            ("prefix", {"id": 1, "value": ("http://e/" + marks + "/") if where == "prefix" else "http://e/"}),
            ("name", {"id": 1, "value": marks if where == "name" else "n"}), ("name", {"id": 2, "value": "m"})]
    o = ("lit", marks, "simple", None) if where == "literal" else ("bnode", "b")
    frames = []
    for i in range(refs):
        # alternate two subjects so that nothing is elided as a repeated term
        rows.append(("triple", {"s": ("iri", 1, 1 + i % 2), "p": ("iri", 1, 1), "o": o if (where == "literal" and i % 2 == 0) else ("bnode", f"b{i % 2}")}))
        if len(rows) >= 50:
            frames.append({"rows": rows})
            rows = []
    if rows:
        frames.append({"rows": rows})
    return wire.enc_stream(frames, True)


def wide_quoted_repeated(nodes: int, rows: int) -> bytes:
    def tree(k):
        if k <= 1:
            return {"s": ("iri", 0, 1), "p": ("iri", 0, 2), "o": ("bnode", "x")}
        return {"s": ("triple", tree(k // 2)), "p": ("iri", 0, 2), "o": ("triple", tree(k - k // 2 - 1)) if k > 2 else ("bnode", "y")}
    head = [("options", _opts(generalized_statements=False)), ("name", {"id": 1, "value": "urn:a"}), ("name", {"id": 2, "value": "urn:b"}),
            ("triple", {"s": ("triple", tree(nodes)), "p": ("iri", 0, 2), "o": ("bnode", "o")})]
    frames = [{"rows": head}]
    data = wire.enc_stream(frames, True)
    one = wire.enc_stream([{"rows": [("triple", {})] * 50}], True)
    return data + one * (rows // 50)


def one_huge_frame(n: int) -> bytes:
    """ONE frame with n rows: options, a name entry, a triple, then n all-repeated triple rows of four bytes each - work
    per row must not grow with the number of rows in the frame."""
    head = [("options", _opts()), ("name", {"id": 0, "value": "urn:x"}),
            ("triple", {"s": ("iri", 0, 0), "p": ("iri", 0, 1), "o": ("bnode", "b")})]
    body = b"".join(wire.f_bytes(1, wire.enc_row(r)) for r in head) + wire.f_bytes(1, wire.enc_row(("triple", {}))) * n
    return wire.enc_varint(len(body)) + body


def declarations_then_frames(d: int, n: int, frames: str) -> bytes:
    """A first frame with d namespace declarations followed by n tiny frames (zero-length keep-alives, or frames that carry
    one metadata entry): work per later frame must not grow with what EARLIER frames declared."""
    rows = [("options", _opts(version=2, max_prefix_table_size=8, max_name_table_size=8))]
    for i in range(d):
        rows += [("prefix", {"id": (i % 8) + 1, "value": f"http://e/{i}/"}), ("name", {"id": (i % 8) + 1, "value": ""}),
                 ("namespace", {"name": f"p{i}", "value": ("iri", (i % 8) + 1, (i % 8) + 1)})]
    head = wire.enc_stream([{"rows": rows}], True)
    if frames == "empty":
        return head + b"\x00" * n
    one = wire.enc_stream([{"rows": [], "metadata": [("k", b"v")]}], True)
    return head + one * n


def long_entry_many_slots(length: int, n: int, which: str) -> bytes:
    """ONE long entry (tens of KiB) in one table and n short entries overwriting 8 slots of the other, each used by one
    statement, 10 statements per frame: every statement's IRI is a new string of `length` bytes, but a consumer that drops
    the statements it gets needs a few of them at a time - the format's own amplification, n x length, is only legitimate
    for a caller who KEEPS the statements (parse_jelly_to_graph), never inside the parser."""
    long_ = "http://e/" + "a" * length + "/"
    frames = []
    rows = [("options", _opts(max_name_table_size=8, max_prefix_table_size=8)),
            (which, {"id": 1, "value": long_})]
    for i in range(n):
        slot = i % 8 + 1
        rows.append(("name" if which == "prefix" else "prefix", {"id": slot, "value": f"n{i}"}))
        iri = ("iri", 1, slot) if which == "prefix" else ("iri", slot, 1)
        rows.append(("triple", {"s": iri, "p": iri, "o": ("bnode", "b")}))
        if (i + 1) % 10 == 0:
            frames.append({"rows": rows})
            rows = []
    if rows:
        frames.append({"rows": rows})
    return wire.enc_stream(frames, True)


FIXED_DIRECTIVES = ["{physical_type:>300000000}", "{logical_type:>300000000}", "{0:>300000000}", "%300000000d"]
# always present too: options rows whose numeric fields are as large as the wire allows
FIXED_OPTION_EXTREMES = [{"version": (1 << 31) - 1}, {"version": (1 << 62)}, {"logical_type": (1 << 31) - 1}, {"physical_type": (1 << 31) - 1},
                         {"max_name_table_size": (1 << 32) - 1}, {"max_prefix_table_size": (1 << 63) - 1},
                         {"max_datatype_table_size": (1 << 32) - 1}]


def valid_tail() -> bytes:
    """One well-formed frame: options, a name and a triple (what follows a long run of keep-alive frames)."""
    rows = [("options", _opts()), ("name", {"id": 0, "value": "urn:x"}),
            ("triple", {"s": ("iri", 0, 0), "p": ("iri", 0, 1), "o": ("bnode", "b")})]
    return wire.enc_stream([{"rows": rows}], True)


def make_inputs(rng, n: int, first_batch: bool = False) -> list:
    out = []
    for k in range(n):
        x = rng.random()
        if first_batch and k < 2:
            # always present: a long run of empty (keep-alive) frames in front of a well-formed frame
            cls, name, data = "hostile", "empty-frames", b"\x00" * (300_000 if k == 0 else 1_000_000) + valid_tail()
        elif first_batch and k < 2 + len(FIXED_DIRECTIVES):
            # always present: a stream NAME that is a format directive, on a stream whose type no entry point supports
            d = FIXED_DIRECTIVES[k - 2]
            rows = [("options", _opts(stream_name=d, physical_type=0)), ("name", {"id": 0, "value": "urn:x"}),
                    ("triple", {"s": ("iri", 0, 0), "p": ("iri", 0, 1), "o": ("bnode", "b")})]
            cls, name, data = "hostile", "format-directive", wire.enc_stream([{"rows": rows}], True)
        elif first_batch and k < 2 + len(FIXED_DIRECTIVES) + len(FIXED_OPTION_EXTREMES):
            ext = FIXED_OPTION_EXTREMES[k - 2 - len(FIXED_DIRECTIVES)]
            rows = [("options", _opts(**ext)), ("name", {"id": 0, "value": "urn:x"}),
                    ("triple", {"s": ("iri", 0, 0), "p": ("iri", 0, 1), "o": ("bnode", "b")})]
            cls, name, data = "hostile", "option-field-extreme", wire.enc_stream([{"rows": rows}], True)
        elif first_batch and k == 2 + len(FIXED_DIRECTIVES) + len(FIXED_OPTION_EXTREMES):
            cls, name, data = "hostile", "long-entry-many-slots", long_entry_many_slots(64 << 10, 4000, "prefix")
        elif first_batch and k == 5 + len(FIXED_DIRECTIVES) + len(FIXED_OPTION_EXTREMES):
            cls, name, data = "hostile", "combining-marks", combining_marks(2500, 1500, "name")
        elif first_batch and k == 4 + len(FIXED_DIRECTIVES) + len(FIXED_OPTION_EXTREMES):
            cls, name, data = "hostile", "one-huge-frame", one_huge_frame(300_000)
        elif first_batch and k == 3 + len(FIXED_DIRECTIVES) + len(FIXED_OPTION_EXTREMES):
            cls, name, data = "hostile", "declarations-then-many-frames", declarations_then_frames(300, 20000, "empty")
        elif x < .3:
            cls, data, name = "random", random_bytes(rng), "random"
        elif x < .65:
            cls, data, name = "mutated", mutated(rng), "mutated"
        else:
            name, data = hostile(rng)
            cls = "hostile"
        entries = ["generic:flat"] + rng.sample(ENTRY_NAMES[1:], 2)
        if first_batch and k < 2:
            entries = list(ENTRY_NAMES) if k == 0 else ["generic:flat", "rdflib:grouped"]
        elif first_batch and k < 2 + len(FIXED_DIRECTIVES) + len(FIXED_OPTION_EXTREMES):
            entries = list(ENTRY_NAMES)
        if name == "combining-marks":
            entries = ["generic:flat", "rdflib:flat", "generic:grouped", "generic:to_graph"]
        if name == "one-huge-frame":
            entries = ["generic:flat", "rdflib:flat"]
        if name == "declarations-then-many-frames":
            entries = list(ENTRY_NAMES)
        if name == "long-entry-many-slots":
            entries = ["generic:flat", "rdflib:flat", "generic:grouped", "rdflib:grouped"]     # consumers that keep nothing
        out.append({"i": k, "class": cls, "name": name, "hex": data.hex(), "entries": entries,
                    "source": rng.choice(["file", "file", "bytesio", "bytesio", "bytesio", "raw-nonseekable", "buffered-nonseekable"]),
                    "len": len(data)})
    # the resident-memory oracle reads the child's high-water mark: inputs that legitimately need a lot of memory (their
    # own size) go LAST in the batch, so that they cannot mask what a small input before them allocates
    out.sort(key=lambda it: (it["len"] > 50_000, it["len"] if it["len"] > 50_000 else 0))
    return out


# ------------------------------------------------------------------ child control

def run_child(inputs: list, workdir: str, tag: str, timeout: float, cpu_limit: int | None = None,
              per_input_timeout: float = 20):
    batch = os.path.join(workdir, f"batch-{tag}.json")
    journal = os.path.join(workdir, f"journal-{tag}.jsonl")
    with open(batch, "w") as f:
        json.dump({"inputs": inputs, "rlimit_as": AS_LIMIT, "rlimit_cpu": cpu_limit,
                   "per_input_timeout": per_input_timeout}, f)
    if os.path.exists(journal):
        os.remove(journal)
    e = dict(os.environ, PYTHONPATH=env.VERIF_DIR, PYTHONDONTWRITEBYTECODE="1", RV_NO_COVERAGE="1")
    try:
        r = subprocess.run([sys.executable, "-X", "faulthandler", "-m", "rv.props.c17_child", batch, journal],
                           cwd=env.VERIF_DIR, env=e, capture_output=True, text=True, timeout=timeout)
        rc, err, timed_out = r.returncode, r.stderr[-1500:], False
    except subprocess.TimeoutExpired as ex:
        rc, err, timed_out = None, (ex.stderr or b"")[-1500:] if isinstance(ex.stderr, bytes) else str(ex.stderr)[-1500:], True
    recs = []
    if os.path.exists(journal):
        with open(journal) as f:
            for line in f:
                try:
                    recs.append(json.loads(line))
                except json.JSONDecodeError:
                    pass
    return rc, err, timed_out, recs


def budgets(n: int):
    return {"cpu": 2.0 + 0.001 * n, "steps": 20000 + 400 * n, "rss_kb": 32 * 1024 + n}   # 32 MiB + 1 KiB per input byte


def judge_record(rec: dict, item: dict):
    """-> (clause, summary) or None for an 'end' record."""
    b = budgets(item["len"])
    if rec["outcome"] == "base-exception":
        return "non-exception-raised", f"{rec['entry']} raised {rec['exc']} (not an ordinary Exception)"
    if rec.get("exc") in ("MemoryError", "RecursionError"):
        where = rec.get("exc_where", [])
        # innermost frame decides: a MemoryError out of protobuf's input.read(declared_length) is CPython's buffered
        # reader refusing an address-space reservation under RLIMIT_AS (see assumptions), not a pyjelly allocation
        # ... and so is the same read(declared_length) forwarded by pyjelly's own thin reader shim: the failing statement
        # is a read() on the caller's input object, not an allocation of pyjelly's
        if where and where[-1].startswith("pyjelly") and ".read(" not in rec.get("exc_line", ""):
            return "resource-exhaustion-in-pyjelly", f"{rec['entry']} raised {rec['exc']} from {where[-2:]}"
    if rec["rss_growth_kb"] > b["rss_kb"]:
        return "resident-memory", (f"{rec['entry']}: resident high-water grew by {rec['rss_growth_kb'] // 1024} MiB on a "
                                   f"{item['len']}-byte input (budget {b['rss_kb'] // 1024} MiB)")
    if rec["steps"] > b["steps"]:
        return "steps", f"{rec['entry']}: {rec['steps']} pyjelly steps on a {item['len']}-byte input (budget {b['steps']})"
    if rec["cpu"] > b["cpu"]:
        return "cpu", f"{rec['entry']}: {rec['cpu']} s CPU on a {item['len']}-byte input (budget {b['cpu']:.1f} s)"
    return None


def confirm_alone(item: dict, entry: str, workdir: str):
    """Re-run one (input, entry) alone with a 10x CPU budget. -> ('hang'|'killed'|clause|None, detail)"""
    one = dict(item, entries=[entry])
    cpu = int(10 * budgets(item["len"])["cpu"]) + 5
    rc, err, timed_out, recs = run_child([one], workdir, "confirm", timeout=cpu * 2 + 30, cpu_limit=cpu,
                                         per_input_timeout=cpu * 2 + 20)
    end = next((r for r in recs if r["ev"] == "end"), None)
    if end is None:
        if timed_out or (rc is not None and rc < 0 and -rc in (24, 9)):     # SIGXCPU / killed by the CPU limit
            return "hang", f"did not finish within 10x the CPU budget ({cpu} s CPU); rc={rc}"
        if rc is not None and rc < 0:
            return "killed", f"child died with signal {-rc}: {err[-300:]}"
        if rc not in (0, None):
            return "killed", f"child exited with status {rc} without finishing the input: {err[-300:]}"
        return None, "no end record but child exited normally"
    j = judge_record(end, item)
    return (j[0], j[1]) if j else (None, "within budget when run alone")


SCALING_FAMILIES = {
    # name -> (builder(n) -> bytes, small n, entries); the large size is 4 x the small one
    "one-huge-frame": (lambda n: one_huge_frame(n), 100_000, ["generic:flat", "rdflib:flat"]),
    "many-name-entries-in-one-frame": (lambda n: wire.enc_stream(
        [{"rows": [("options", _opts(max_name_table_size=4096))] + [("name", {"id": (k % 4096) + 1, "value": "n"}) for k in range(n)]}], True),
        60_000, ["generic:flat", "rdflib:flat"]),
    "many-one-row-frames": (lambda n: valid_tail() + wire.enc_stream([{"rows": [("triple", {})]}], True) * n, 50_000,
                            ["generic:flat", "rdflib:flat", "generic:grouped"]),
    # one statement whose subject is a WIDE quoted triple (n/40 nodes) followed by n four-byte rows that repeat it: per-row work
    # must not grow with the size of a term the row merely repeats (options leave generalized_statements unset)
    "wide-quoted-triple-repeated": (lambda n: wide_quoted_repeated(max(8, n // 40), n), 10_000, ["generic:flat"]),
    # one literal of an integer datatype whose lexical form has n digits (whatever the term library does with it)
    "huge-integer-literal": (lambda n: wire.enc_stream([{"rows": [
        ("options", _opts(max_datatype_table_size=8)), ("name", {"id": 0, "value": "urn:x"}),
        ("datatype", {"id": 0, "value": "http://www.w3.org/2001/XMLSchema#integer"}),
        ("triple", {"s": ("iri", 0, 0), "p": ("iri", 0, 1), "o": ("lit", "7" * n, "dt", 1)})]}], True),
        500_000, ["rdflib:flat", "generic:flat"], 16),
}


def scaling_factor(name: str) -> int:
    """How much larger the large input of the pair is (4, or 16 for families whose suspected growth is gentler than quadratic)."""
    fam = SCALING_FAMILIES[name]
    return fam[3] if len(fam) > 3 else 4


def _superlinear(name: str, a, b) -> bool:
    """large run missing, or >= 3 s CPU and more than TWICE what linear growth from the small run would give"""
    return b is None or (b >= 3.0 and b > 2 * scaling_factor(name) * max(a, 0.05))


def _scaling_pair(name: str, workdir: str, tag: str, only_entry: str | None = None):
    build, n, entries = SCALING_FAMILIES[name][:3]
    factor = scaling_factor(name)
    if only_entry:
        entries = [only_entry]
    items = []
    for i, size in enumerate((n, factor * n)):
        data = build(size)
        items.append({"i": i, "class": "hostile", "name": f"scaling:{name}", "hex": data.hex(), "entries": entries,
                      "source": "bytesio", "len": len(data)})
    rc, err, timed_out, recs = run_child(items, workdir, tag, timeout=900, cpu_limit=600, per_input_timeout=400)
    cpu = {(r["i"], r["entry"]): r["cpu"] for r in recs if r["ev"] == "end"}
    return items, cpu, (rc, timed_out, err)


def scaling_probe(ctx, workdir: str):
    """'Terminates promptly' as a SCALING statement: for input families that can be made any size, the same shape at k times
    the size (k = 4, or 16) may cost at most 2k times the CPU (linear would be k) - judged only when the large run is slow enough
    to measure (>= 3 s CPU), and only after the pair was measured a second time on its own."""
    for name in SCALING_FAMILIES:             # (bounded work, about 20 s on the unchanged tree: not cut short by the budget)
        items, cpu, st = _scaling_pair(name, workdir, f"scale-{ctx.shard}")
        ctx.observe("scaling-pairs-measured")
        for entry in SCALING_FAMILIES[name][2]:
            a, b = cpu.get((0, entry)), cpu.get((1, entry))
            if a is None:
                ctx.inconc(f"scaling probe {name}/{entry}: the SMALL input did not finish (rc={st[0]}, timeout={st[1]})")
                continue
            suspect = _superlinear(name, a, b)
            ctx.observe(f"scaling:{name}:{entry}:{'suspect' if suspect else 'linear-or-too-fast-to-judge'}")
            if suspect:
                _it2, cpu2, st2 = _scaling_pair(name, workdir, f"scale-confirm-{ctx.shard}", only_entry=entry)
                a2, b2 = cpu2.get((0, entry)), cpu2.get((1, entry))
                if a2 is not None and _superlinear(name, a2, b2):
                    ctx.violation({"clause": "superlinear-time", "entry": entry, "input_class": "hostile", "name": f"scaling:{name}",
                                   "len": items[1]["len"], "source": "bytesio", "hex": "", "family": name,
                                   "summary": f"{name}: {entry} needs {a2:.2f} s CPU for {items[0]['len']} bytes and "
                                              + (f"{b2:.2f} s" if b2 is not None else "more than 400 s (not finished)")
                                              + f" for {items[1]['len']} bytes of the same shape: {scaling_factor(name)} times the input, "
                                              + (f"{b2 / max(a2, 0.05):.1f}" if b2 is not None else "> 100")
                                              + " times the time (confirmed by a second measurement)"})
            ctx.case(("scaling", name, entry), True, sample={"kind": "scaling pair", "family": name, "entry": entry,
                                                             "cpu_small": a, "cpu_large": b, "bytes": [items[0]["len"], items[1]["len"]]})


def run_shard(ctx):
    workdir = tempfile.mkdtemp(prefix="rv-c17-")
    try:
        if ctx.shard == 1 % ctx.nshards and __debug__:
            scaling_probe(ctx, workdir)
        b = 0
        while not ctx.out_of_time():
            rng = ctx.rng("batch", b)
            b += 1
            inputs = make_inputs(rng, 60 if ctx.tier == "quick" else 150, first_batch=(b == 1 and ctx.shard == 0))
            pending = list(inputs)
            guard = 0
            while pending and guard < 40 and not ctx.out_of_time():
                guard += 1
                # once a hang is confirmed in this shard the per-input watchdog is tightened so that further
                # hanging inputs cost seconds, not the whole budget
                hangs = ctx.observed.get("confirmed-hangs", 0)
                rc, err, timed_out, recs = run_child(pending, workdir, f"{ctx.shard}", timeout=120 + 1.0 * len(pending),
                                                     per_input_timeout=20 if not hangs else 4)
                by_i = {it["i"]: it for it in pending}
                started = None
                finished = set()
                for rec in recs:
                    it = by_i.get(rec["i"])
                    if it is None:
                        continue
                    if rec["ev"] == "start":
                        started = (rec["i"], rec["entry"])
                        continue
                    finished.add((rec["i"], rec["entry"]))
                    if started == (rec["i"], rec["entry"]):
                        started = None
                    ctx.observe("inputs-finished")
                    ctx.observe(f"class:{it['class']}")
                    ctx.observe(f"outcome:{rec['outcome']}" + (f":{rec.get('exc')}" if rec["outcome"] != "returned" else ""))
                    ctx.observe(f"entry:{rec['entry']}")
                    if it["class"] == "hostile":
                        ctx.observe(f"hostile:{it['name']}")
                    if rec["rows"] > 0:
                        ctx.observe("rows-decoded-inputs")
                    if rec.get("exc") == "MemoryError":
                        ctx.observe("MemoryError raised (where: %s)" % (rec.get("exc_where") or ["?"])[-1])
                    j = judge_record(rec, it)
                    if j is not None:
                        clause, summary = j
                        if clause in ("cpu", "steps", "resident-memory"):
                            c2, d2 = confirm_alone(it, rec["entry"], workdir)
                            if c2 is None:
                                ctx.observe(f"suspect-not-confirmed:{clause}")
                                j = None
                            else:
                                clause, summary = c2, d2 + " (confirmed alone)"
                        if j is not None:
                            ctx.violation({"clause": clause, "entry": rec["entry"], "input_class": it["class"], "name": it["name"],
                                           "hex": it["hex"] if it["len"] <= 4096 else it["hex"][:8192], "len": it["len"],
                                           "source": it["source"], "record": rec, "summary": f"{it['name']} input: {summary}"})
                    ctx.case((gen.case_hash(it["hex"]), rec["entry"]), rec["rows"] > 0,
                             sample={"class": it["class"], "name": it["name"], "len": it["len"], "entry": rec["entry"],
                                     "outcome": rec["outcome"], "exc": rec.get("exc"), "steps": rec["steps"], "rows": rec["rows"],
                                     "cpu": rec["cpu"], "rss_growth_kb": rec["rss_growth_kb"]})
                # did the child stop in the middle of an input?
                culprit = started
                if culprit is None and not timed_out and rc == 0:
                    break
                if culprit is None:
                    ctx.inconc(f"child ended abnormally (rc={rc}, timeout={timed_out}) outside any input: {err[-200:]}")
                    break
                it = by_i[culprit[0]]
                if ctx.observed.get("confirmed-hangs", 0) >= 2:
                    # the verdict is already established; further suspects are only counted
                    ctx.observe("further-suspects-not-re-run")
                    c2, d2 = None, "not re-run"
                else:
                    c2, d2 = confirm_alone(it, culprit[1], workdir)
                if c2 == "hang":
                    ctx.observe("confirmed-hangs")
                if c2 is not None:
                    ctx.violation({"clause": c2, "entry": culprit[1], "input_class": it["class"], "name": it["name"],
                                   "hex": it["hex"] if it["len"] <= 4096 else it["hex"][:8192], "len": it["len"], "source": it["source"],
                                   "summary": f"{it['name']} input, {culprit[1]}: {d2}; batch child rc={rc} timeout={timed_out}; "
                                              f"stderr: {err[-300:]}"})
                elif d2 != "not re-run":
                    ctx.observe("batch-interrupted-but-input-fine-alone")
                # continue with what the child had not reached yet
                rest = []
                for x in pending:
                    ents = [e for e in x["entries"] if (x["i"], e) not in finished and (x["i"], e) != culprit]
                    if ents:
                        rest.append(dict(x, entries=ents))
                pending = rest
    finally:
        shutil.rmtree(workdir, ignore_errors=True)


def replay(w: dict):
    if w.get("clause") == "superlinear-time":
        workdir = tempfile.mkdtemp(prefix="rv-c17-")
        try:
            items, cpu, _st = _scaling_pair(w["family"], workdir, "replay", only_entry=w["entry"])
            a, b = cpu.get((0, w["entry"])), cpu.get((1, w["entry"]))
            if a is not None and _superlinear(w["family"], a, b):
                return {"clause": "superlinear-time", "summary": f"{a} s vs {b} s"}
            return None
        finally:
            shutil.rmtree(workdir, ignore_errors=True)
    if w["len"] > 4096:
        return {"clause": w["clause"], "summary": "input larger than 4 KiB is not stored; re-run ./check C17 with the same VERIF_SEED"}
    workdir = tempfile.mkdtemp(prefix="rv-c17-")
    try:
        item = {"i": 0, "class": w["input_class"], "name": w["name"], "hex": w["hex"], "entries": [w["entry"]],
                "source": w["source"], "len": w["len"]}
        c, d = confirm_alone(item, w["entry"], workdir)
        return {"clause": c, "summary": d} if c else None
    finally:
        shutil.rmtree(workdir, ignore_errors=True)


def classify(w: dict):
    return None
