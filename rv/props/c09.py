"""C09 - parsing is independent of how the byte source chunks its reads."""
from __future__ import annotations

import gzip
import io
import os
import tempfile

from .. import gen, pj, sources, workloads
from .. import terms as T

ID = "C09"
LEVEL = "exploration"
RULE = ("valid streams (written by pyjelly and by the reference producer, delimited and single-frame, > 64 KiB ones, and "
        "hand-framed ones whose first frame is exactly 10 / 11 / 12 / 127 / 128 / 130 bytes) are parsed from: "
        "BytesIO (baseline), a regular file, BufferedReader(file), BufferedReader over a SEEKABLE raw double that dribbles by schedule, gzip over such a double, "
        "a BufferedReader handed over with only 1-2 bytes of the stream left in its buffer (buffer sizes 16 and 8192), BytesIO / file positioned after a foreign header (offset > 0), gzip, a non-seekable RawIOBase double that dribbles by "
        "schedule (all-1, all-2, all-3, [1,1,k], [2,k], frame boundary +-1, random sizes >= 1), a BufferedReader around that "
        "double (what socket.makefile('rb') / an HTTP response is), and real os.pipe / socketpair sources fed by a "
        "dribbling writer thread (kernel-made short reads, recorded). Oracle: events returned by parse_jelly_flat / "
        "parse_jelly_grouped / parse_jelly_to_graph of both integrations == the BytesIO baseline (itself tied to the intended events); raising is a violation. "
        "Non-trivial: the schedule's first raw read returned < 3 bytes or a read split a length varint / frame; distinct by "
        "(stream hash, source kind, observed (requested, returned) sequence).")
ASSUMPTIONS = [
    "sources obey the io contracts: RawIOBase.readinto returns 1..len(b) bytes, 0 only at EOF",
]
ANCHORS = ["pyjelly/parse/ioutils.py"]
MARKERS = {
    "non-seekable-branch": ("pyjelly/parse/ioutils.py", r"if not inp\.seekable\(\)"),
    "seekable-branch": ("pyjelly/parse/ioutils.py", r"inp\.seek\(-len\(bytes_read\)"),
    "non-delimited-read-all": ("pyjelly/parse/ioutils.py", r"frame = parse\(jelly\.RdfStreamFrame"),
}
REQUIRED_OBSERVED = ["source:dribble-raw", "source:pipe-raw", "source:socket-buffered", "source:gzip", "schedules-first-read-lt3"]
MIN_NONTRIVIAL = 30
MANIFEST = {
    "text": "Differential monitor at the parser boundary: the same bytes through ten kinds of byte source and many read "
            "schedules (test doubles with recorded (requested, returned) logs, plus real pipes and sockets with a dribbling "
            "writer thread) must yield exactly the BytesIO baseline.",
    "note": "Covers the schedules generated/observed in the run (listed in the evidence); kernel-made schedules vary from "
            "run to run and are recorded, the verdict never depends on timing.",
    "technique": "runtime monitoring: differential parse across instrumented byte sources and read schedules",
}


def plan(tier: str) -> dict:
    return {"shards": 4, "budget_s": 35} if tier == "quick" else {"shards": 16, "budget_s": 300}


def schedules(rng, data: bytes, frames) -> list:
    n = len(data)
    out = [("all-1", [1]), ("all-2", [2]), ("all-3", [3]), ("1-1-k", [1, 1, 1 << 20]), ("2-k", [2, 1 << 20]),
           ("1-k", [1, 1 << 20]), ("all-7", [7])]
    if len(frames) > 1:
        b = frames[0]["span"][1]
        for d in (-1, 0, 1):
            if 0 < b + d < n:
                out.append((f"frame-boundary{d:+d}", [b + d, 1, 1 << 20]))
    out.append(("random", [rng.randint(1, 9) for _ in range(64)] + [rng.randint(1, 200)]))
    out.append(("random-big", [rng.randint(1, max(2, n // 2)) for _ in range(16)]))
    return out


def parse_from(integ: str, entry: str, inp):
    if entry == "plugin":
        # the rdflib plugin entry point: Dataset.parse(source=<file object>, format="jelly")
        import rdflib
        try:
            store = rdflib.Dataset(default_union=False)
            store.parse(source=inp, format="jelly")
            return sorted(T.norm_events([("stmt", x) for x in T.rdflib_store_statements(store)]), key=repr), None
        except Exception as e:  # noqa: BLE001
            return None, e
    if entry == "flat":
        evs, exc = pj.run_flat_collect(integ, inp)
        return T.norm_events(evs), exc
    try:
        evs = T.norm_events(pj.parse(integ, entry, inp))
        if integ == "rdflib":
            evs = sorted(evs, key=repr)         # rdflib stores: compare as (sorted) sets
        return evs, None
    except Exception as e:  # noqa: BLE001
        return None, e


def run_source(kind: str, data: bytes, sched, integ: str, entry: str, tmpdir: str):
    """-> (events, exception, read log or None)"""
    log = None
    if kind == "file":
        p = os.path.join(tmpdir, "s.jelly")
        with open(p, "wb") as f:
            f.write(data)
        with open(p, "rb") as f:
            r = parse_from(integ, entry, f)
    elif kind == "file-raw-buffered":
        p = os.path.join(tmpdir, "s.jelly")
        with open(p, "wb") as f:
            f.write(data)
        with io.BufferedReader(io.FileIO(p, "rb"), buffer_size=16) as f:
            r = parse_from(integ, entry, f)
    elif kind == "bytesio-offset":
        pre = b"HDR\x0a\x00" * 3
        f = io.BytesIO(pre + data)
        f.seek(len(pre))                # the caller consumed a container header first
        r = parse_from(integ, entry, f)
    elif kind == "file-offset":
        pre = b"\x0a\x0a\x0aXYZ"
        p = os.path.join(tmpdir, "o.bin")
        with open(p, "wb") as f:
            f.write(pre + data)
        with open(p, "rb") as f:
            f.seek(len(pre))
            r = parse_from(integ, entry, f)
    elif kind in ("gzip-file", "bz2-file", "lzma-file"):
        import bz2
        import lzma
        mod = {"gzip-file": gzip, "bz2-file": bz2, "lzma-file": lzma}[kind]
        p = os.path.join(tmpdir, "s.jelly." + kind.split("-")[0])
        with mod.open(p, "wb") as f:        # a compressed file on disk: fileno()/st_size describe the COMPRESSED bytes
            f.write(data)
        with mod.open(p, "rb") as f:
            r = parse_from(integ, entry, f)
    elif kind == "gzip":
        with gzip.open(io.BytesIO(gzip.compress(data)), "rb") as f:
            r = parse_from(integ, entry, f)
    elif kind == "seekable-dribble-buffered":
        raw = sources.SeekableDribbleRaw(data, sched)            # a seekable file on a slow medium, buffered
        r = parse_from(integ, entry, io.BufferedReader(raw))
        log = raw.log
    elif kind == "gzip-over-seekable-dribble":
        comp = gzip.compress(data)
        raw = sources.SeekableDribbleRaw(comp, [max(2, x) for x in sched])     # GzipFile reads its magic with one read(2)
        with gzip.GzipFile(fileobj=raw, mode="rb") as f:
            r = parse_from(integ, entry, f)
    elif kind.startswith("buffered-tail"):
        # the caller consumed a container header through the same BufferedReader: only 1-2 bytes of the stream are left
        # in its buffer when the parser gets it
        k, bufsize = {"buffered-tail1-of-16": (1, 16), "buffered-tail2-of-16": (2, 16),
                      "buffered-tail1-of-8192": (1, 8192), "buffered-tail2-of-8192": (2, 8192)}[kind]
        pre = b"\x0a" * (bufsize - k)
        p = os.path.join(tmpdir, "t.bin")
        with open(p, "wb") as f:
            f.write(pre + data)
        with io.BufferedReader(io.FileIO(p, "rb"), buffer_size=bufsize) as f:
            f.read(len(pre))
            r = parse_from(integ, entry, f)
    elif kind == "gzip-over-nonseekable":
        # gzip.open(sys.stdin.buffer) / GzipFile over a socket file: the GzipFile says seekable(), its transport is not
        comp = gzip.compress(data)
        raw = sources.DribbleRaw(comp, sched)
        with gzip.GzipFile(fileobj=io.BufferedReader(raw), mode="rb") as f:
            r = parse_from(integ, entry, f)
    elif kind in ("dribble-raw-coop", "dribble-buffered-coop"):
        # cooperative multitasking (gevent, a hand-written scheduler): whenever THIS parse's source is asked for bytes, another
        # parse of another stream - with a dribbling source of its own - gets to run until its next item
        other = _OTHER[0] or data

        class _Coop(sources.DribbleRaw):
            busy = False
            it = None

            def readinto(self, b):
                if not _Coop.busy:
                    _Coop.busy = True
                    try:
                        from pyjelly.integrations.generic import parse as _gp
                        if _Coop.it is None:
                            _Coop.it = iter(_gp.parse_jelly_flat(sources.DribbleRaw(other, [1, 2, 3, 5, 1])))
                        if next(_Coop.it, None) is None:
                            _Coop.it = None
                    except Exception:  # noqa: BLE001 - the other parse is not what is judged
                        _Coop.it = None
                    finally:
                        _Coop.busy = False
                return super().readinto(b)
        raw = _Coop(data, sched)
        r = parse_from(integ, entry, raw if kind == "dribble-raw-coop" else io.BufferedReader(raw))
        log = raw.log
    elif kind in ("http-chunked", "http-content-length"):
        # a real http.client.HTTPResponse from a loopback server (what urllib.request.urlopen returns), the body sent with
        # Transfer-Encoding: chunked in pieces of the schedule's sizes, or with a Content-Length
        import http.client
        import http.server
        import threading
        sizes = [max(1, x) for x in (sched or [64])]

        class H(http.server.BaseHTTPRequestHandler):
            protocol_version = "HTTP/1.1"

            def log_message(self, *a):
                pass

            def do_GET(self):
                self.send_response(200)
                if kind == "http-chunked":
                    self.send_header("Transfer-Encoding", "chunked")
                    self.end_headers()
                    pos, i = 0, 0
                    while pos < len(data):
                        n = min(sizes[min(i, len(sizes) - 1)], len(data) - pos, 4096)
                        i += 1
                        self.wfile.write(b"%x\r\n" % n + data[pos:pos + n] + b"\r\n")
                        pos += n
                    self.wfile.write(b"0\r\n\r\n")
                else:
                    self.send_header("Content-Length", str(len(data)))
                    self.end_headers()
                    self.wfile.write(data)
        srv = http.server.HTTPServer(("127.0.0.1", 0), H)
        t = threading.Thread(target=srv.handle_request, daemon=True)
        t.start()
        conn = http.client.HTTPConnection("127.0.0.1", srv.server_address[1], timeout=20)
        try:
            conn.request("GET", "/s.jelly")
            resp = conn.getresponse()
            r = parse_from(integ, entry, resp)
        finally:
            conn.close()
            t.join(timeout=5)
            srv.server_close()
    elif kind in ("dribble-buffered-after-preamble", "dribble-buffered-peeked"):
        # a non-seekable buffered reader (sock.makefile('rb'), os.fdopen(pipe, 'rb')) the caller has ALREADY used: it read a
        # protocol preamble line off it, or peeked at the first bytes - so part of the stream sits in the reader's buffer
        pre = b"X-Content: jelly\n" if kind.endswith("preamble") else b""
        raw = sources.DribbleRaw(pre + data, sched if sched and sched[0] > 2 else [64] + list(sched or [1]))
        f = io.BufferedReader(raw)
        if pre:
            f.readline()
        else:
            f.peek(2)
        r = parse_from(integ, entry, f)
        log = raw.log
    elif kind == "dribble-raw":
        raw = sources.DribbleRaw(data, sched)
        r = parse_from(integ, entry, raw)
        log = raw.log
    elif kind == "dribble-buffered":
        raw = sources.DribbleRaw(data, sched)
        r = parse_from(integ, entry, io.BufferedReader(raw))
        log = raw.log
    elif kind in ("socket-timeout-raw-fd", "pipe-raw-fd"):
        # the REAL raw objects (they have a fileno()), no recording wrapper: a socket with a timeout (its descriptor is in
        # non-blocking mode underneath) read through makefile('rb', buffering=0), and the FileIO of a pipe; the peer
        # dribbles with pauses, so the bytes asked for are often not there yet
        import socket as _socket
        if kind == "pipe-raw-fd":
            r_fd, w_fd = os.pipe()
            t = sources.feeder(lambda b: os.write(w_fd, b), lambda: os.close(w_fd), data, sched, delay=0.001 if len(data) < 5000 else 0.0)
            f = io.FileIO(r_fd, "rb", closefd=True)
            keep = None
        else:
            a, b = _socket.socketpair()
            b.settimeout(10.0)
            t = sources.feeder(a.sendall, lambda: (a.shutdown(_socket.SHUT_WR), a.close()), data, sched,
                               delay=0.001 if len(data) < 5000 else 0.0)
            f = b.makefile("rb", buffering=0)
            keep = b
        try:
            r = parse_from(integ, entry, f)
        finally:
            try:
                f.close()
                if keep is not None:
                    keep.close()
            except Exception:  # noqa: BLE001
                pass
            t.join(timeout=5)
    elif kind in ("pipe-raw", "pipe-buffered", "socket-raw", "socket-buffered"):
        mk = sources.pipe_source if kind.startswith("pipe") else sources.socket_source
        f, rec, t = mk(data, sched, kind.endswith("buffered"), delay=0.0002 if len(data) < 5000 else 0.0)
        try:
            r = parse_from(integ, entry, f)
        finally:
            try:
                f.close()
            except Exception:  # noqa: BLE001
                pass
            t.join(timeout=5)
        log = rec.log
    else:
        raise ValueError(kind)
    return r[0], r[1], log


KINDS = ["gzip-over-nonseekable", "seekable-dribble-buffered", "gzip-over-seekable-dribble", "buffered-tail1-of-16", "buffered-tail2-of-16",
         "buffered-tail1-of-8192", "buffered-tail2-of-8192", "file", "file-raw-buffered", "bytesio-offset", "file-offset", "gzip", "gzip-file", "bz2-file", "lzma-file", "dribble-raw", "dribble-buffered", "pipe-raw", "pipe-buffered",
         "socket-raw", "socket-buffered", "socket-timeout-raw-fd", "pipe-raw-fd", "dribble-raw-coop", "dribble-buffered-coop",
         "dribble-buffered-after-preamble", "dribble-buffered-peeked", "http-chunked", "http-content-length"]


_NEXT_OTHER: list = [None]
_OTHER: list = [None]         # the previous iteration's stream: what the OTHER parse of the cooperative kinds reads


def nontrivial(log, data: bytes, frames) -> bool:
    if not log:
        return False
    got = [g for _r, g in log if g > 0]
    if got and got[0] < 3:
        return True
    # a read boundary strictly inside a frame's length prefix or body
    pos = 0
    cuts = set()
    for g in got:
        pos += g
        cuts.add(pos)
    bounds = {fr["span"][1] for fr in frames} | {0}
    return any(c not in bounds and c < len(data) for c in cuts)


def big_stream(rng, mebibyte: bool = False):
    from .. import wire

    n = rng.randint(250, 400) if not mebibyte else 2700
    stmts = [(("iri", f"http://ex.org/s{k % 50}"), ("iri", "http://ex.org/p"),
              ("lit", ("x%d-" % k) * rng.randint(60, 90), None, None)) for k in range(n)]
    delimited = rng.random() < 0.5
    cfg = {"integration": "generic", "physical": 1, "entry": "stream_frames_gen", "frame_size": rng.choice([50, 250]),
           "preset": (128, 16, 0), "delimited": delimited, "logical": 1, "generalized": True, "rdf_star": True}
    data = pj.serialize(cfg, stmts)
    return {"data": data, "delimited": delimited, "events": [("stmt", s) for s in stmts], "producer": "pyjelly",
            "frames": wire.dec_stream(data, delimited), "physical": 1, "mode": "generic"}


def _iteration(ctx, rng, i, tmpdir):
    if i == 2 and ctx.shard == 0 and __debug__:
        vs = big_stream(rng, mebibyte=True)    # > 1 MiB, once per run
        vs["mode"] = "rdf11"
        ctx.observe("big-streams(>1MiB)")
    elif i % 40 == 1:
        vs = big_stream(rng)          # > 64 KiB: read sizes that no small stream can expose
        ctx.observe("big-streams(>64KiB)")
    elif i % 8 == 3:
        # first frame of exactly 10 (or 9..12, 127, 128) bytes: headers 0A 0A NN etc. under short reads
        vs = workloads.crafted_header_stream(rng, rng.choice([10, 10, 10, 11, 12, 127, 128, 130]))
        ctx.observe(f"crafted-first-frame-length:{vs['first_frame_len']}")
    else:
        vs = workloads.valid_stream(rng, mode=rng.choice(["generic", "rdf11"]), max_len=20)
        if vs is not None and vs["delimited"] and i % 5 == 2:
            # the stream opens with 1-3 frames that hold no rows: zero-length keep-alives or metadata-only heartbeats
            from .. import wire as _wire
            lead = [{"rows": [], "metadata": ([("hb", bytes([k]))] if rng.random() < .5 else [])} for k in range(rng.randint(1, 3))]
            frames = lead + [{"rows": f["rows"], "metadata": f.get("metadata") or []} for f in vs["frames"]]
            data2 = _wire.enc_stream(frames, True)
            vs = dict(vs, data=data2, frames=_wire.dec_stream(data2, True), producer=vs["producer"] + "+leading-rowless-frames")
            ctx.observe("streams-opening-with-rowless-frames")
    if vs is None:
        return
    data = vs["data"]
    # rdflib entry points only for RDF 1.1 content (pyjelly-written generic-mode streams may hold RDF-star)
    rdf11 = vs.get("mode") == "rdf11" or vs["producer"] == "crafted-header"
    integ = "rdflib" if rdf11 and rng.random() < .5 else "generic"
    entry = rng.choice(["flat", "flat", "grouped", "to_graph"] + (["plugin", "plugin"] if integ == "rdflib" else []))
    if i == 2 and ctx.shard == 0 and __debug__:
        integ, entry = "rdflib", "plugin"
    base, exc = parse_from(integ, entry, io.BytesIO(data))
    if exc is not None or (entry == "flat" and base != T.norm_events(vs["events"])):
        # the in-memory buffer is itself one of the sources the property names
        ctx.violation({"clause": "raised" if exc is not None else "events-differ", "source": "bytesio",
                       "schedule_name": "n/a", "schedule": [], "first_read": None, "read_log": [],
                       "bytes": data.hex() if len(data) < 20000 else data[:2000].hex(), "n_bytes": len(data),
                       "delimited": vs["delimited"], "entry": entry, "producer": vs["producer"], "integration": integ,
                       "summary": f"BytesIO ({len(data)} bytes, delimited={vs['delimited']}): "
                                  + (f"{type(exc).__name__}: {str(exc)[:120]}" if exc is not None
                                     else "events differ from the intended events")})
        ctx.case((gen.case_hash(data), "bytesio"), False)
        return
    if len(data) < 20000 and vs["delimited"]:
        _OTHER[0], _NEXT_OTHER[0] = (_NEXT_OTHER[0] or data), data
    scheds = schedules(rng, data, vs["frames"])
    if len(data) > 60000:
        scheds = [(n, sc) for n, sc in scheds if n in ("1-1-k", "2-k", "1-k", "random-big")] + \
            [("all-4096", [4096]), ("all-65536", [65536])]
    kinds = list(KINDS)
    if len(data) > 1_000_000:
        kinds = ["gzip-over-nonseekable", "gzip", "gzip-file", "file", "dribble-buffered", "pipe-buffered", "seekable-dribble-buffered"]
        scheds = [(n, sc) for n, sc in scheds if n in ("2-k", "all-65536")]
    for kind in kinds:
        these = scheds if kind.startswith(("dribble", "seekable-dribble")) else [rng.choice(scheds)]
        if not kind.startswith(("dribble", "pipe", "socket", "seekable-dribble", "gzip-over", "http")):
            these = [("n/a", None)]
        for sname, sched in these:
            got, exc, log = run_source(kind, data, sched, integ, entry, tmpdir)
            ctx.observe(f"source:{kind}")
            first = next((g for _r, g in (log or []) if g > 0), None)
            if first is not None and first < 3:
                ctx.observe("schedules-first-read-lt3")
            w = None
            if exc is not None:
                w = {"clause": "raised", "summary": f"{kind}/{sname}: {type(exc).__name__}: {str(exc)[:150]}"}
            elif got != base:
                w = {"clause": "events-differ", "summary": f"{kind}/{sname}: {len(got)} events vs baseline {len(base)}"}
            if w:
                if kind.endswith("coop"):
                    w["other_bytes"] = (_OTHER[0] or data).hex()
                w.update({"integration": integ, "source": kind, "schedule_name": sname, "schedule": (sched or [])[:70],
                          "first_read": first, "read_log": (log or [])[:12], "bytes": data.hex(),
                          "delimited": vs["delimited"], "entry": entry, "producer": vs["producer"]})
                ctx.violation(w)
            key = (gen.case_hash(data), kind, tuple(log[:200]) if log else sname)
            ctx.case(key, nontrivial(log, data, vs["frames"]),
                     sample={"source": kind, "schedule": sname, "delimited": vs["delimited"], "bytes": len(data),
                             "read_log_head": (log or [])[:8]})
    # transport FAILURES are not structure either: a read that raises must not be taken for the end of the stream
    if vs["delimited"] and len(vs["frames"]) >= 2:
        for exc_type in (ConnectionResetError, BrokenPipeError, ConnectionAbortedError, TimeoutError, OSError):
            b0 = vs["frames"][rng.randrange(len(vs["frames"]) - 1)]["span"][1]
            fail_at = b0 if rng.random() < .6 else rng.randint(1, len(data) - 1)
            buffered = rng.random() < .5
            raw = sources.FailingRaw(data, rng.choice([[1 << 20], [7], [1]]), fail_at, exc_type)
            got, exc2 = parse_from(integ, entry, io.BufferedReader(raw) if buffered else raw)
            ctx.observe("transport-failure-runs")
            ctx.observe(f"transport-failure:{exc_type.__name__}")
            if exc2 is None and got != base:
                ctx.violation({"clause": "transport-failure-taken-for-end-of-stream", "integration": integ, "entry": entry,
                               "source": "failing-raw" + ("-buffered" if buffered else ""), "schedule_name": "n/a",
                               "schedule": [], "first_read": None, "bytes": data.hex(), "fail_at": fail_at,
                               "exception": exc_type.__name__, "delimited": True, "producer": vs["producer"],
                               "summary": f"{integ}:{entry}: the source raised {exc_type.__name__} after {fail_at} of {len(data)} "
                                          f"bytes; the parse ENDED NORMALLY with {len(got)} of {len(base)} events"})
            ctx.case((gen.case_hash(data), "failing", exc_type.__name__, fail_at), True,
                     sample={"source": "failing-raw", "exception": exc_type.__name__, "fail_at": fail_at, "bytes": len(data)})


def child_case(ctx, rng, k):
    tmpdir = tempfile.mkdtemp(prefix="rv-c09-O-")
    try:
        _iteration(ctx, rng, 100 + k, tmpdir)
    finally:
        import shutil
        shutil.rmtree(tmpdir, ignore_errors=True)


def run_shard(ctx):
    tmpdir = tempfile.mkdtemp(prefix="rv-c09-")
    try:
        if ctx.shard == 1 % ctx.nshards:
            # a slice again in an interpreter started with -O: reading must not depend on an assert being executed
            from .. import childopt
            childopt.run(ctx, ID, 25 if ctx.tier == "quick" else 300, timeout=900)
        i = 0
        while not ctx.out_of_time():
            rng = ctx.rng(i)
            i += 1
            _iteration(ctx, rng, i, tmpdir)
    finally:
        import shutil
        shutil.rmtree(tmpdir, ignore_errors=True)


def replay(w: dict):
    if w.get("clause") == "transport-failure-taken-for-end-of-stream":
        data = bytes.fromhex(w["bytes"])
        integ = w.get("integration", "generic")
        base, _e = parse_from(integ, w["entry"], io.BytesIO(data))
        raw = sources.FailingRaw(data, [7], w["fail_at"], getattr(__import__("builtins"), w["exception"]))
        got, exc2 = parse_from(integ, w["entry"], io.BufferedReader(raw) if w["source"].endswith("buffered") else raw)
        return {"clause": w["clause"], "summary": "still ends normally"} if exc2 is None and got != base else None
    data = bytes.fromhex(w["bytes"])
    _OTHER[0] = bytes.fromhex(w["other_bytes"]) if w.get("other_bytes") else None
    if w.get("source") == "bytesio":
        _b, exc = parse_from(w.get("integration", "generic"), w["entry"], io.BytesIO(data))
        return {"clause": "raised", "summary": f"BytesIO: {type(exc).__name__}: {exc}"} if exc is not None else None
    tmpdir = tempfile.mkdtemp(prefix="rv-c09-")
    try:
        integ = w.get("integration", "generic")
        base, exc = parse_from(integ, w["entry"], io.BytesIO(data))
        got, exc2, _log = run_source(w["source"], data, w.get("schedule") or [1], integ, w["entry"], tmpdir)
        if exc2 is not None:
            return {"clause": "raised", "summary": f"{type(exc2).__name__}: {exc2}"}
        if got != base:
            return {"clause": "events-differ", "summary": "differs from BytesIO baseline"}
        return None
    finally:
        import shutil
        shutil.rmtree(tmpdir, ignore_errors=True)


def classify(w: dict):
    # non-seekable source whose first raw read returned < 3 bytes; parser raised / mis-framed
    if w.get("source", "").split("-")[0] in ("dribble", "pipe", "socket") and w.get("first_read") is not None \
            and w["first_read"] < 3 and w.get("clause") in ("raised", "events-differ"):
        return "C09/short-first-read"
    return None
