"""C19 - compression contract: each string once, repeats elided, delta forms used."""
from __future__ import annotations

import random

from .. import pj, refdec, refenc, wire, workloads
from .. import terms as T

ID = "C19"
LEVEL = "exploration"
RULE = ("row-level audit, by the reference decoder, of every stream written by the serializer workloads of both "
        "integrations (one case in five: 2-5 sinks through ONE stream) plus dedicated runs with tables larger than the vocabulary: (a) no entry row for a string resident "
        "in that table (and whenever a table, at its ADVERTISED size, can hold all distinct strings of the stream, every string is sent exactly once - incl. dedicated streams with 9-15 prefixes/datatypes under presets of 8-12 names and 16-64 prefixes/datatypes), (b) no statement slot carrying a term equal to "
        "the previous statement's term in that slot, (c) no explicit entry/name/prefix id where the zero form is "
        "equivalent, (d) GRAPHS streams written from a statement sequence never close and reopen the same graph for "
        "consecutive quads, (e) size <= naive one-entry-per-use encoding. Non-trivial: the stream offered >= 1 "
        "opportunity of each kind (hit, repeat, zero form); distinct by hash of (config, statements).")
ASSUMPTIONS = [
    "term equality for (b) is RDF term equality with xsd:string == plain literal, as the property's sibling C01 defines it",
    "clause (d) is judged only for ordered (generic) input: rdflib stores have no statement sequence",
]
ANCHORS = ["pyjelly/serialize/lookup.py", "pyjelly/serialize/encode.py", "pyjelly/integrations/generic/serialize.py"]
MARKERS = {
    "entry-hit-returns-None": ("pyjelly/serialize/lookup.py", r"return None  # noqa: TRY300"),
    "prefix-zero-form": ("pyjelly/serialize/lookup.py", r"if current_index == previous_index:"),
    "name-zero-form": ("pyjelly/serialize/lookup.py", r"if current_index == previous_index \+ 1"),
}
REQUIRED_OBSERVED = ["streams-audited", "opportunity:elision", "opportunity:table-hit"]
MANIFEST = {
    "text": "The independent decoder audits every entry row, term slot and id field of thousands of emitted streams per "
            "run and counts redundant entries, missed elisions and missed zero forms; output size is compared with a "
            "naive reference encoding of the same input.",
    "note": "Trusts rv.refdec's audit counters (Appendix A) and neutral term equality. Covers the streams generated in "
            "the run only.",
    "technique": "runtime monitoring: offline row-level audit of emitted streams by the reference decoder",
}


def plan(tier: str) -> dict:
    return {"shards": 4, "budget_s": 30} if tier == "quick" else {"shards": 16, "budget_s": 400}


def naive_size(cfg: dict, res: refdec.Result) -> int | None:
    """Size of the one-entry-per-use, no-elision, explicit-id encoding of the same events and framing."""
    opt = dict(res.options)
    pol = refenc.Policy(split="sep", evict="lru", p_explicit_id=1.0, p_elide=0.0, p_redundant=1.0,
                        frame_cut="fixed", frame_size=10 ** 9, p_implicit_empty_prefix=0.0)
    pr = refenc.Producer(random.Random(0), pol, opt)
    try:
        pr.encode_events(list(res.events))
    except refenc.ProducerError:
        return None
    rows = pr.rows
    nframes = max(1, len(res.rows_per_frame))
    # exactly as many frames as the stream under audit has (rows spread evenly): rounding the rows-per-frame up would
    # give the naive encoding FEWER frames, i.e. less framing overhead than the output it is compared with
    q, r = divmod(len(rows), nframes)
    frames, i = [], 0
    for k in range(nframes):
        n = q + (1 if k < r else 0)
        frames.append({"rows": rows[i:i + n], "metadata": []})
        i += n
    if not cfg["delimited"]:
        frames = [{"rows": rows, "metadata": []}]
    return len(wire.enc_stream(frames, cfg["delimited"]))


def audit_case(cfg: dict, stmts: list, ns: list):
    """-> (list of witnesses, refdec result or None)"""
    try:
        data = pj.serialize(cfg, stmts, ns)
    except Exception:  # noqa: BLE001
        return [], None
    try:
        res = refdec.decode(wire.dec_stream(data, cfg["delimited"]), strict_graphs=True)
    except wire.WireError:
        return [], None
    if res.violation is not None:
        return [], None       # validity is C03's question
    out = []
    a = res.audit
    kinds = ["redundant-entry", "missed-elision", "missed-zero-entry-id", "missed-zero-name-id",
             "missed-zero-prefix-id"]
    if workloads.input_is_ordered(cfg) or cfg["entry"] in ("flat_to_file", "flat_frames", "stream_frames_gen"):
        kinds.append("split-graph")
    for kind in kinds:
        if a[kind]:
            samples = [s for s in res.audit_samples if s["kind"] == kind][:3]
            out.append({"clause": kind, "count": a[kind], "audit_samples": T.to_json(samples),
                        "summary": f"{kind} x{a[kind]}: {samples[:1]}"})
    # (a'): "with tables large enough for all distinct strings, each is sent exactly once" - judged per table against the
    # size the stream's own options row ADVERTISES
    frames = wire.dec_stream(data, cfg["delimited"])
    for table, key in (("name", "max_name_table_size"), ("prefix", "max_prefix_table_size"), ("datatype", "max_datatype_table_size")):
        sent: dict = {}
        for fr in frames:
            for row in fr["rows"]:
                if row[0] == table:
                    sent[row[1]["value"]] = sent.get(row[1]["value"], 0) + 1
        size = res.options.get(key, 0)
        if sent and len(sent) <= size and max(sent.values()) > 1:
            twice = sorted(v for v, c in sent.items() if c > 1)
            out.append({"clause": "entry-resent-although-table-holds-all-strings", "table": table, "distinct": len(sent), "table_size": size,
                        "summary": f"{table} table of {size} entries (as advertised), {len(sent)} distinct strings in the stream, "
                                   f"yet {len(twice)} of them were sent more than once, e.g. {twice[0][:60]!r} x{sent[twice[0]]}"})
    if not out and workloads.input_is_ordered(cfg):
        # (e) only for caller-defined sequences: an rdflib Dataset also carries (possibly empty) graphs
        # that are part of *its* input but not of the statement list the naive encoding is built from
        nv = naive_size(cfg, res)
        if nv is not None and len(data) > nv:
            out.append({"clause": "larger-than-naive", "summary": f"{len(data)} bytes > naive {nv}"})
    return out, res


def opportunities(stmts: list, res: refdec.Result) -> dict:
    c = res.counters
    entries = c["name-entry"] + c["prefix-entry"] + c["datatype-entry"]
    refs = res.checked["iri-refs"] * 2 + res.checked["datatype-refs"]
    return {"elision": c["elision"] > 0, "table-hit": refs > entries,
            "zero-form": (c["name-zero-id"] + c["prefix-zero-id"] + c["name-entry-zero-id"]) > 0}


def audit_groups(cfg: dict, groups: list, nss: list):
    """Several sinks through ONE stream: the compression state must carry over from sink to sink."""
    try:
        data = pj.serialize_groups(cfg, groups, nss)
        res = refdec.decode(wire.dec_stream(data, True), strict_graphs=True)
    except Exception:  # noqa: BLE001
        return [], None
    if res.violation is not None:
        return [], None
    kinds = ["redundant-entry", "missed-zero-entry-id", "missed-zero-name-id", "missed-zero-prefix-id"]
    if workloads.input_is_ordered(cfg):
        kinds.append("missed-elision")        # rdflib stores iterate in their own order: elisions are judged on generic input
    out = []
    for kind in kinds:
        if res.audit[kind]:
            samples = [s for s in res.audit_samples if s["kind"] == kind][:3]
            out.append({"clause": kind, "count": res.audit[kind], "audit_samples": T.to_json(samples),
                        "summary": f"{len(groups)}-sink stream: {kind} x{res.audit[kind]}: {samples[:1]}"})
    return out, res


def long_graphs_case(ctx, rng):
    """Thousands of quads in a few long same-graph runs through the generic GraphStream: still one graph block per run."""
    n = 2600 if ctx.tier == "quick" else 12000
    graphs = [("iri", "http://ex.org/g/a"), ("default",), ("bnode", "gb")]
    stmts = []
    g = graphs[0]
    for k in range(n):
        if k and rng.random() < 0.0015:
            g = rng.choice([x for x in graphs if x != g])
        stmts.append((("iri", f"http://ex.org/s/{k % 7}"), ("iri", "http://ex.org/p"), ("lit", str(k % 50), None, None), g))
    cfg = {"integration": "generic", "physical": 3, "entry": rng.choice(["stream_frames_gen", "stream_frames_sink"]),
           "frame_size": 250, "preset": (64, 8, 0), "delimited": True, "logical": 2, "generalized": True, "rdf_star": True,
           "ns": False, "stream_name": ""}
    ws, res = audit_case(cfg, stmts, [])
    ctx.observe("long-graphs-streams")
    if res is not None:
        ctx.observe("streams-audited")
    for w in ws:
        w.update({"cfg": cfg, "stmts": T.to_json(stmts[:5]), "ns": [], "note": f"{n} quads; witness truncated"})
        ctx.violation(w)
    ctx.case(("long-graphs", ctx.shard, n), res is not None, sample={"kind": "long GRAPHS stream", "quads": n})


def wide_vocabulary_case(ctx, rng, k):
    """More distinct prefixes (or datatypes) than NAMES the tables hold, all revisited, under a preset whose prefix /
    datatype table is larger than its name table and large enough for all of them: each string goes out exactly once."""
    npre = rng.randint(9, 15)
    nss = [f"http://ex.org/wide/{j}/" for j in range(npre)]
    dts = [f"http://ex.org/wide/dt{j}" for j in range(rng.randint(9, 14))]
    integ = "generic" if k % 2 == 0 else "rdflib"
    stmts = []
    for _ in range(rng.randint(40, 120)):
        o = ("lit", "v", None, rng.choice(dts)) if rng.random() < .5 else ("iri", rng.choice(nss) + rng.choice("ab"))
        stmts.append((("iri", rng.choice(nss) + "a"), ("iri", rng.choice(nss) + "b"), o))
    cfg = {"integration": integ, "physical": 1, "entry": rng.choice(["stream_frames_gen", "flat_frames", "flat_to_file"]),
           "frame_size": rng.choice([5, 250]), "preset": (rng.choice([8, 8, 12]), rng.choice([16, 32, 64]), rng.choice([16, 32])),
           "delimited": True, "logical": 1, "generalized": False, "rdf_star": False, "ns": False, "stream_name": ""}
    ws, res = audit_case(cfg, stmts, [])
    ctx.observe("wide-vocabulary-streams")
    if res is not None:
        ctx.observe("streams-audited")
    for w in ws:
        w.update({"cfg": cfg, "stmts": T.to_json(stmts), "ns": []})
        ctx.violation(w)
    ctx.case(("wide-vocabulary", sorted(cfg.items()), stmts), res is not None,
             sample={"kind": "prefix/datatype vocabulary wider than the name table", "cfg": cfg, "prefixes": npre})


def run_shard(ctx):
    long_graphs_case(ctx, ctx.rng("long-graphs"))
    for k in range(6):
        wide_vocabulary_case(ctx, ctx.rng("wide-vocab", k), k)
    i = 0
    while not ctx.out_of_time():
        rng = ctx.rng(i)
        i += 1
        if i % 5 == 0:
            cfg, groups, nss = workloads.multi_sink_case(rng, with_ns=rng.random() < .4)
            if rng.random() < .6:       # make consecutive sinks share terms across the boundary
                for a, b in zip(groups, groups[1:]):
                    if a and b:
                        b[0] = tuple(a[-1][:2]) + tuple(b[0][2:])
            ws, res = audit_groups(cfg, groups, nss)
            if res is not None:
                ctx.observe("streams-audited")
                ctx.observe("multi-sink-streams-audited")
            for w in ws:
                w.update({"cfg": cfg, "groups": T.to_json(groups), "nss": nss, "stmts": T.to_json([s for g in groups for s in g])})
                ctx.violation(w)
            ctx.case(("multi", sorted(cfg.items()), groups, nss), res is not None,
                     sample={"kind": "multi-sink", "cfg": cfg, "group_sizes": [len(g) for g in groups]})
            continue
        cfg, stmts, ns = workloads.serializer_case(rng, max_len=50)
        if rng.random() < 0.3:      # dedicated: tables larger than the vocabulary => each string exactly once
            n, p, d = cfg["preset"]
            cfg["preset"] = (4000, 150 if p else 0, max(d, 32))
            ctx.observe("big-table-cases")
        ws, res = audit_case(cfg, stmts, ns)
        if res is None:
            ctx.observe("not-auditable (raised or invalid: judged by C01/C03)")
            ctx.case((cfg, stmts), False)
            continue
        ctx.observe("streams-audited")
        ctx.observe(f"{cfg['integration']}:physical{cfg['physical']}")
        ctx.observe("entry-rows-audited", res.counters["name-entry"] + res.counters["prefix-entry"] + res.counters["datatype-entry"])
        ctx.observe("term-slots-audited", res.checked["row-kind"] * (3 if cfg["physical"] != 2 else 4))
        opp = opportunities(stmts, res)
        for k, v in opp.items():
            if v:
                ctx.observe(f"opportunity:{k}")
        for w in ws:
            def still(s, clause=w["clause"]):
                return any(x["clause"] == clause for x in audit_case(cfg, s, ns)[0])
            small = workloads.shrink_list(stmts, still, max_tests=60)
            w2 = next((x for x in audit_case(cfg, small, ns)[0] if x["clause"] == w["clause"]), w)
            w2.update({"cfg": cfg, "stmts": T.to_json(small), "ns": ns})
            ctx.violation(w2)
        ctx.case((sorted(cfg.items()), stmts, ns), all(opp.values()),
                 sample={"cfg": cfg, "n_statements": len(stmts), "audit": dict(res.audit),
                         "counters": dict(res.counters)})


def replay(w: dict):
    cfg = w["cfg"]
    cfg["preset"] = tuple(cfg["preset"])
    if "groups" in w:
        ws, _ = audit_groups(cfg, [list(g) for g in T.from_json(w["groups"])], [[tuple(b) for b in n] for n in w["nss"]])
        return next((x for x in ws if x["clause"] == w["clause"]), None)
    stmts = list(T.from_json(w["stmts"]))
    ns = [tuple(x) for x in w.get("ns", [])]
    for x in audit_case(cfg, stmts, ns)[0]:
        if x["clause"] == w["clause"]:
            return x
    return None


def _terms_of(stmts):
    for st in stmts:
        for top in st:
            yield from T.iter_terms(top)


def classify(w: dict):
    """Known-finding predicates (DESIGN Appendix F) - by mechanism, from the shrunk witness."""
    stmts = list(T.from_json(w.get("stmts", [])))
    cfg = w.get("cfg", {})
    if w.get("clause") == "split-graph":
        # same root cause in the graph slot: "x" and "x"^^xsd:string are different objects to split_to_graphs
        for a, b in zip(stmts, stmts[1:]):
            if len(a) == 4 and len(b) == 4:
                x, y = a[3], b[3]
                if x[0] == "lit" and y[0] == "lit" and x != y and T.norm_term(x) == T.norm_term(y) \
                        and {x[3], y[3]} == {None, T.XSD_STRING}:
                    return "C19/xsd-string-vs-plain-not-elided"
        return None
    if w.get("clause") == "missed-elision":
        # the two literals differ only by xsd:string vs no datatype in the *input*
        ordered = workloads.input_is_ordered(cfg)
        for smp in w.get("audit_samples", []):
            slot = smp["detail"]["slot"]
            idx = "spog".index(slot)
            term = T.norm_term(tuple(smp["detail"]["term"]))
            col = [st[idx] for st in stmts if idx < len(st)]
            pairs = zip(col, col[1:]) if ordered else ((x, y) for x in col for y in col)
            for x, y in pairs:
                if x[0] == "lit" and y[0] == "lit" and x != y and T.norm_term(x) == T.norm_term(y) == term \
                        and {x[3], y[3]} == {None, T.XSD_STRING}:
                    return "C19/xsd-string-vs-plain-not-elided"
        return None
    if w.get("clause") == "redundant-entry" and cfg.get("integration") == "rdflib":
        # redundant *name* entry whose value equals a separator-less IRI of the input
        sepless = {t[1] for t in _terms_of(stmts) if t[0] == "iri" and "/" not in t[1] and "#" not in t[1]}
        sepless |= {i for _, i in w.get("ns", []) if "/" not in i and "#" not in i}
        for smp in w.get("audit_samples", []):
            d = smp["detail"]
            if d["table"] == "name" and d["value"] in sepless:
                return "C19/rdflib-uriref-lookup-keys"
        return None
    return None
