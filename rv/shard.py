import sys

from rv.runner import shard_main

if __name__ == "__main__":
    sys.exit(shard_main(sys.argv[1:]))
