"""Invariant hooks applied in-process to the real pyjelly classes (no source edits).

icontract class invariants / postconditions patch the classes in place, so
references bound earlier (``from x import Lookup``) are covered too.  Every
condition counts its evaluations; zero evaluations => the caller must report
*inconclusive*.  Contracts run in the calling thread outside any lock: armed in
single-threaded workloads only.
"""
from __future__ import annotations

from collections import Counter

from . import env

env.pin()

import icontract  # noqa: E402

from pyjelly.parse import lookup as plookup  # noqa: E402
from pyjelly.serialize import flows as sflows  # noqa: E402
from pyjelly.serialize import lookup as slookup  # noqa: E402
from pyjelly.serialize import streams as sstreams  # noqa: E402

EVALS: Counter = Counter()
BROKEN: list = []          # contract failures are *recorded*, the workload decides what to do
_armed = False


class InvariantBroken(AssertionError):
    pass


def _record(name: str, ok: bool, detail: str) -> bool:
    EVALS[name] += 1
    if not ok:
        if len(BROKEN) < 20:
            BROKEN.append({"contract": name, "detail": detail})
        return False
    return True


# ---- Lookup (writer LRU table)
def lookup_bounded(self) -> bool:
    n = len(self.data)
    ok = n <= self.max_size if self.max_size else n == 0
    if ok and n and n <= 64:
        vals = list(self.data.values())
        ok = len(set(vals)) == n and min(vals) >= 1 and max(vals) <= self.max_size
    return _record("Lookup.bounded", ok, f"len={n} max={self.max_size}")


# ---- LookupEncoder
def encoder_cursors(self) -> bool:
    size = self.lookup.max_size
    ok = 0 <= self.last_assigned_index <= size and 0 <= self.last_reused_index <= size
    return _record("LookupEncoder.cursors", ok,
                   f"assigned={self.last_assigned_index} reused={self.last_reused_index} size={size}")


def entry_index_in_range(self, result) -> bool:
    size = self.lookup.max_size
    ok = result is None or (isinstance(result, int) and 0 <= result <= size)
    return _record("LookupEncoder.entry_id_range", ok, f"result={result!r} size={size}")


def term_index_in_range(self, result) -> bool:
    size = self.lookup.max_size
    ok = isinstance(result, int) and 0 <= result <= size
    return _record("LookupEncoder.term_id_range", ok, f"result={result!r} size={size}")


# ---- LookupDecoder
def decoder_shape(self) -> bool:
    """Live entries never exceed the declared size (representation-agnostic: deque, list or dict)."""
    size = self.lookup_size
    data = self.data
    vals = data.values() if isinstance(data, dict) else data
    live = sum(1 for v in vals if v is not None)
    ok = live <= size and self.last_reused_index >= 0 and self.last_assigned_index >= 0
    return _record("LookupDecoder.shape", ok, f"live={live} size={size} assigned={self.last_assigned_index}")


def arm() -> None:
    """Install the contracts (idempotent)."""
    global _armed
    if _armed:
        return
    _armed = True
    icontract.invariant(lookup_bounded, error=InvariantBroken)(slookup.Lookup)
    icontract.invariant(encoder_cursors, error=InvariantBroken)(slookup.LookupEncoder)
    LE = slookup.LookupEncoder
    LE.encode_entry_index = icontract.ensure(entry_index_in_range, error=InvariantBroken)(LE.encode_entry_index)
    for name in ("encode_term_index", "encode_prefix_term_index", "encode_name_term_index",
                 "encode_datatype_term_index"):
        setattr(LE, name, icontract.ensure(term_index_in_range, error=InvariantBroken)(getattr(LE, name)))
    icontract.invariant(decoder_shape, error=InvariantBroken)(plookup.LookupDecoder)
    _wrap_to_stream_frame()


def _wrap_to_stream_frame() -> None:
    orig = sflows.FrameFlow.to_stream_frame

    def to_stream_frame(self):
        pending = len(self)
        frame = orig(self)
        ok = len(self) == 0 and ((frame is None and pending == 0)
                                 or (frame is not None and len(frame.rows) == pending))
        _record("FrameFlow.to_stream_frame", ok,
                f"pending={pending} left={len(self)} frame_rows={None if frame is None else len(frame.rows)}")
        return frame

    sflows.FrameFlow.to_stream_frame = to_stream_frame


def take_broken() -> list:
    out = list(BROKEN)
    BROKEN.clear()
    return out


# ---- stream registry: every Stream an entry point creates, so its flow can be inspected later
_REGISTRY: list = []
_registry_on = False


def stream_registry_on() -> None:
    global _registry_on
    if _registry_on:
        return
    _registry_on = True
    orig = sstreams.Stream.__init__

    def __init__(self, *a, **kw):
        orig(self, *a, **kw)
        _REGISTRY.append(self)   # strong: entry points drop their streams on return
        EVALS["Stream.__init__"] += 1

    sstreams.Stream.__init__ = __init__


def registry_clear() -> None:
    _REGISTRY.clear()


def registry_streams() -> list:
    return list(_REGISTRY)
