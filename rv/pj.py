"""Thin drivers around pyjelly's *public* entry points (the observation boundary).

``serialize(cfg, stmts, ns)`` -> bytes,  ``parse(integration, entry, data)`` -> neutral events.
Nothing here interprets Jelly; it only calls pyjelly and converts terms.
"""
from __future__ import annotations

import io
from typing import Any, Iterable

from . import env

env.pin()

from pyjelly import jelly  # noqa: E402
from pyjelly.integrations.generic import generic_sink as gs  # noqa: E402
from pyjelly.integrations.generic import parse as gparse  # noqa: E402
from pyjelly.integrations.generic import serialize as gser  # noqa: E402
from pyjelly.integrations.rdflib import parse as rparse  # noqa: E402
from pyjelly.integrations.rdflib import serialize as rser  # noqa: E402
from pyjelly.options import LookupPreset, StreamParameters  # noqa: E402
from pyjelly.serialize import streams as pstreams  # noqa: E402
from pyjelly.serialize.ioutils import write_delimited, write_single  # noqa: E402

from . import terms as T  # noqa: E402

STREAM_CLASSES = {1: pstreams.TripleStream, 2: pstreams.QuadStream, 3: pstreams.GraphStream}
FLAT_LOGICAL = {1: 1, 2: 2, 3: 2}

GENERIC_ENTRIES = {
    1: ["flat_to_file", "flat_frames", "grouped_to_file", "stream_frames_sink",
        "stream_frames_gen", "sink_serialize"],
    2: ["flat_to_file", "flat_frames", "grouped_to_file", "stream_frames_sink",
        "stream_frames_gen", "sink_serialize"],
    3: ["stream_frames_sink", "stream_frames_gen"],
}
RDFLIB_ENTRIES = {
    1: ["graph_serialize", "flat_to_file", "flat_frames", "grouped_to_file", "stream_frames_gen"],
    2: ["graph_serialize", "flat_to_file", "flat_frames", "grouped_to_file", "stream_frames_gen"],
    3: ["graph_serialize", "stream_frames_gen", "stream_frames_store"],
}


OPTIONS_OVERRIDE: Any = None     # a caller-owned SerializerOptions object re-used across serializations (set by a workload)


def make_options(cfg: dict, flow: Any = None) -> pstreams.SerializerOptions:
    if OPTIONS_OVERRIDE is not None and flow is None:
        return OPTIONS_OVERRIDE
    n, p, d = cfg.get("preset", (4000, 150, 32))
    kw = dict(
        generalized_statements=cfg.get("generalized", True),
        rdf_star=cfg.get("rdf_star", True),
        delimited=cfg.get("delimited", True),
        namespace_declarations=cfg.get("ns", False),
        stream_name=cfg.get("stream_name", ""),
    )
    how = cfg.get("params_build", "direct")
    if how == "positional":          # ... or passes the parameters POSITIONALLY, in the order the dataclass declares them
        params = StreamParameters(kw["generalized_statements"], kw["rdf_star"], 2 if kw["namespace_declarations"] else 1,
                                  kw["delimited"], kw["namespace_declarations"], kw["stream_name"])
    elif how == "version1":          # a caller who spells out the (lowest) version and asks for declarations
        params = StreamParameters(version=1, **kw)
    elif how == "replace":           # ... or derives the parameters from existing ones (defaults, parsed options)
        import dataclasses
        params = dataclasses.replace(StreamParameters(), **kw)
    else:
        params = StreamParameters(**kw)
    options = pstreams.SerializerOptions(
        flow=flow,
        frame_size=cfg.get("frame_size", 250),
        logical_type=cfg.get("logical", FLAT_LOGICAL[cfg["physical"]]),
        params=params,
        lookup_preset=LookupPreset(max_names=n, max_prefixes=p, max_datatypes=d),
    )
    via = cfg.get("options_transport")
    if via:
        # the options reach the writer as a COPY of what the caller configured (templates, worker processes)
        import copy
        import pickle
        options = {"copy": copy.copy, "deepcopy": copy.deepcopy,
                   "pickle": lambda o: pickle.loads(pickle.dumps(o))}[via](options)
    return options


def make_stream(cfg: dict, options: pstreams.SerializerOptions | None = None):
    options = options or make_options(cfg)
    cls = STREAM_CLASSES[cfg["physical"]]
    if cfg["integration"] == "generic":
        return cls(encoder=gser.GenericSinkTermEncoder(lookup_preset=options.lookup_preset),
                   options=options)
    return cls.for_rdflib(options=options)


def write_frames(frames: Iterable, out, delimited: bool, collect: bool = False) -> int:
    """Write frames as they come, or (collect=True) first gather them in a list like a batching caller would."""
    n = 0
    if collect:
        frames = list(frames)
    for fr in frames:
        (write_delimited if delimited else write_single)(fr, out)
        n += 1
    return n


def serialize_groups(cfg: dict, groups: list, ns_per_group: list | None = None) -> bytes:
    """Several sinks/stores written through ONE stream with grouped_stream_to_frames / _to_file."""
    out = io.BytesIO()
    options = make_options(cfg)
    nss = ns_per_group or [[] for _ in groups]
    dataset = cfg["physical"] != 1
    wrap = {"list": list, "tuple": tuple}.get(cfg.get("sinks_as"), lambda x: x)     # a generator, or a re-iterable container
    if cfg["integration"] == "generic":
        sinks = wrap(generic_sink_of(g, n) for g, n in zip(groups, nss))
        if cfg.get("via") == "file":
            gser.grouped_stream_to_file(sinks, out, options=options)
        else:
            write_frames(gser.grouped_stream_to_frames(sinks, options=options), out, True, cfg.get("collect", False))
    else:
        stores = wrap(rdflib_store_of(g, n, dataset=dataset) for g, n in zip(groups, nss))
        if cfg.get("via") == "file":
            rser.grouped_stream_to_file(stores, out, options=options)
        else:
            write_frames(rser.grouped_stream_to_frames(stores, options=options), out, True, cfg.get("collect", False))
    return out.getvalue()


def generic_sink_of(stmts: list, ns: list | None = None, identifier: Any = None):
    sink = gs.GenericStatementSink() if identifier is None else gs.GenericStatementSink(identifier)
    for prefix, iri in ns or ():
        sink.bind(prefix, gs.IRI(iri))
    for st in stmts:
        sink.add(T.stmt_to_generic(st))
    return sink


def rdflib_store_of(stmts: list, ns: list | None = None, dataset: bool | None = None,
                    bind_namespaces: str = "none", empty_graphs: list | None = None):
    import rdflib

    if dataset is None:
        dataset = bool(stmts) and len(stmts[0]) == 4
    if dataset:
        store = rdflib.Dataset(default_union=False)
        # rdflib.Dataset has no bind_namespaces argument; its namespace manager is lazy
        store.namespace_manager = rdflib.namespace.NamespaceManager(store, bind_namespaces=bind_namespaces)
    else:
        store = rdflib.Graph(bind_namespaces=bind_namespaces)
    for prefix, iri in ns or ():
        store.bind(prefix, rdflib.URIRef(iri), override=True, replace=True)
    if dataset:
        for g in empty_graphs or ():      # named graphs that exist but hold no triple
            store.graph(T.to_rdflib(g))
    for st in stmts:
        if len(st) == 4:
            s, p, o, g = (T.to_rdflib(t) for t in st)
            store.add((s, p, o, g))
        else:
            store.add(tuple(T.to_rdflib(t) for t in st))
    return store


def serialize(cfg: dict, stmts: list, ns: list | None = None) -> bytes:
    """Serialize through the entry point named in cfg; returns the bytes written."""
    out = io.BytesIO()
    delimited = cfg.get("delimited", True)
    entry = cfg["entry"]
    if cfg["integration"] == "generic":
        conv = T.stmt_to_generic
        if entry == "flat_to_file":
            if not delimited:
                raise ValueError("harness: this entry point always writes delimited output")
            gser.flat_stream_to_file((conv(s) for s in stmts), out, options=make_options(cfg))
        elif entry == "flat_frames":
            frames = gser.flat_stream_to_frames((conv(s) for s in stmts), options=make_options(cfg))
            write_frames(frames, out, delimited, cfg.get("collect", False))
        elif entry == "grouped_to_file":
            if not delimited:
                raise ValueError("harness: this entry point always writes delimited output")
            sink = generic_sink_of(stmts, ns)
            gser.grouped_stream_to_file((s for s in [sink]), out, options=make_options(cfg))
        elif entry == "stream_frames_sink":
            stream = make_stream(cfg)
            write_frames(gser.stream_frames(stream, generic_sink_of(stmts, ns)), out, delimited, cfg.get("collect", False))
        elif entry == "stream_frames_gen":
            stream = make_stream(cfg)
            write_frames(gser.stream_frames(stream, (conv(s) for s in stmts)), out, delimited, cfg.get("collect", False))
        elif entry == "sink_serialize":
            generic_sink_of(stmts, ns).serialize(out)
        else:
            raise ValueError(entry)
    else:
        conv = T.stmt_to_rdflib
        if cfg.get("plain_tuples"):
            # statements as PLAIN tuples (what Graph.triples()/Dataset.quads() yield), not pyjelly's Triple/Quad classes
            conv = lambda st: tuple(T.stmt_to_rdflib(st))  # noqa: E731
        if entry == "graph_serialize":
            store = rdflib_store_of(stmts, ns, dataset=cfg.get("store_dataset", cfg["physical"] != 1), empty_graphs=cfg.get("empty_graphs"))
            options = make_options(cfg)
            store.serialize(out, format="jelly", options=options, stream=make_stream(cfg, options))
        elif entry == "graph_serialize_path":
            import os
            import tempfile
            store = rdflib_store_of(stmts, ns, dataset=cfg.get("store_dataset", cfg["physical"] != 1), empty_graphs=cfg.get("empty_graphs"))
            fd, path = tempfile.mkstemp(suffix=".jelly", prefix="rv-ser-")
            os.close(fd)
            try:
                options = make_options(cfg)
                store.serialize(destination=path, format="jelly", options=options, stream=make_stream(cfg, options))
                with open(path, "rb") as f:
                    out.write(f.read())
            finally:
                os.unlink(path)
        elif entry == "graph_serialize_stream_only":
            store = rdflib_store_of(stmts, ns, dataset=cfg.get("store_dataset", cfg["physical"] != 1), empty_graphs=cfg.get("empty_graphs"))
            store.serialize(out, format="jelly", stream=make_stream(cfg, make_options(cfg)))   # no options=
        elif entry == "graph_serialize_options":
            store = rdflib_store_of(stmts, ns, dataset=cfg.get("store_dataset", cfg["physical"] != 1), empty_graphs=cfg.get("empty_graphs"))
            store.serialize(out, format="jelly", options=make_options(cfg))
        elif entry == "flat_to_file":
            if not delimited:
                raise ValueError("harness: this entry point always writes delimited output")
            rser.flat_stream_to_file((conv(s) for s in stmts), out, options=None if cfg.get("no_options") else make_options(cfg))
        elif entry == "flat_frames":
            frames = rser.flat_stream_to_frames((conv(s) for s in stmts), options=None if cfg.get("no_options") else make_options(cfg))
            write_frames(frames, out, delimited, cfg.get("collect", False))
        elif entry == "grouped_to_file":
            if not delimited:
                raise ValueError("harness: this entry point always writes delimited output")
            store = rdflib_store_of(stmts, ns, dataset=cfg.get("store_dataset", cfg["physical"] != 1), empty_graphs=cfg.get("empty_graphs"))
            rser.grouped_stream_to_file((s for s in [store]), out, options=make_options(cfg))
        elif entry == "stream_frames_gen":
            stream = make_stream(cfg)
            write_frames(rser.stream_frames(stream, (conv(s) for s in stmts)), out, delimited, cfg.get("collect", False))
        elif entry == "stream_frames_store":
            stream = make_stream(cfg)
            store = rdflib_store_of(stmts, ns, dataset=cfg.get("store_dataset", cfg["physical"] != 1), empty_graphs=cfg.get("empty_graphs"))
            write_frames(rser.stream_frames(stream, store), out, delimited, cfg.get("collect", False))
        else:
            raise ValueError(entry)
    return out.getvalue()


# ------------------------------------------------------------------ parsing

PARSE_ENTRIES = ("flat", "grouped", "to_graph")


def parse_flat_prefetched(integration: str, data_or_file: Any) -> list:
    """The documented two-step use: read options and frames first, then hand both to parse_jelly_flat."""
    from pyjelly.parse.ioutils import get_options_and_frames

    inp = io.BytesIO(data_or_file) if isinstance(data_or_file, (bytes, bytearray)) else data_or_file
    options, frames = get_options_and_frames(inp)
    if integration == "generic":
        return [T.event_from_generic(i) for i in gparse.parse_jelly_flat(inp, frames=frames, options=options)]
    return [T.event_from_rdflib(i) for i in rparse.parse_jelly_flat(inp, frames=frames, options=options)]


def parse(integration: str, entry: str, data_or_file: Any, **kw) -> list:
    """Parse with one entry point; neutral events in the order delivered.

    flat     -> events in order
    grouped  -> events in order, concatenated over sinks (see parse_grouped for per-frame)
    to_graph -> generic: events in store order; rdflib: ns events then statements (a *set*)
    """
    inp = io.BytesIO(data_or_file) if isinstance(data_or_file, (bytes, bytearray)) else data_or_file
    if entry == "flat-prefetched":
        return parse_flat_prefetched(integration, inp)
    if integration == "generic":
        if entry == "flat":
            return [T.event_from_generic(i) for i in gparse.parse_jelly_flat(inp, **kw)]
        if entry == "grouped":
            out = []
            for sink in gparse.parse_jelly_grouped(inp, **kw):
                out.extend(_generic_sink_events(sink))
            return out
        if entry == "to_graph":
            return _generic_sink_events(gparse.parse_jelly_to_graph(inp, **kw))
        if entry == "sink_parse":
            sink = gs.GenericStatementSink()
            sink.parse(inp)
            return _generic_sink_events(sink)
    else:
        if entry == "flat":
            return [T.event_from_rdflib(i) for i in rparse.parse_jelly_flat(inp, **kw)]
        if entry == "grouped":
            out = []
            for store in rparse.parse_jelly_grouped(inp, **_rdflib_factories(kw)):
                out.extend(("stmt", s) for s in T.rdflib_store_statements(store))
            return out
        if entry == "to_graph":
            store = rparse.parse_jelly_to_graph(inp, **_rdflib_factories(kw))
            return [("stmt", s) for s in T.rdflib_store_statements(store)]
    raise ValueError((integration, entry))


def _rdflib_factories(kw: dict) -> dict:
    import rdflib

    kw = dict(kw)
    kw.setdefault("graph_factory", lambda: rdflib.Graph(bind_namespaces="none"))
    kw.setdefault("dataset_factory", lambda: rdflib.Dataset(default_union=False))
    return kw


def _generic_sink_events(sink) -> list:
    out = [("ns", p, (T.from_generic(i)[1] if T.from_generic(i)[0] == "iri" else T.from_generic(i)))
           for p, i in sink.namespaces]
    out.extend(T.event_from_generic(s) for s in sink)
    return out


def iter_grouped_stepped(integration: str, data_or_file, frame_metadata, how: str, **kw):
    """Like iter_grouped, but the consumer takes every sink in a context of its own: 'context' = each next() inside a
    fresh contextvars.copy_context().run(...), 'thread' = each next() on a new thread (asyncio tasks, executor workers
    and callback-driven consumers all do one or the other).  The metadata is read in the same context as the next()."""
    import contextvars
    import threading
    inp = io.BytesIO(data_or_file) if isinstance(data_or_file, (bytes, bytearray)) else data_or_file
    if integration == "generic":
        it = iter(gparse.parse_jelly_grouped(inp, frame_metadata=frame_metadata, **kw))
    else:
        it = iter(rparse.parse_jelly_grouped(inp, frame_metadata=frame_metadata, **_rdflib_factories(kw)))
    done = object()

    def step():
        sink = next(it, done)
        return sink, (None if sink is done else dict(frame_metadata.get()))
    while True:
        if how == "context":
            sink, meta = contextvars.copy_context().run(step)
        else:
            box: list = []

            def target():
                try:
                    box.append(step())
                except BaseException as e:  # noqa: BLE001
                    box.append(e)
            t = threading.Thread(target=target)
            t.start()
            t.join()
            if isinstance(box[0], BaseException):
                raise box[0]
            sink, meta = box[0]
        if sink is done:
            return
        if integration == "generic":
            evs = _generic_sink_events(sink)
            yield ([e for e in evs if e[0] == "stmt"], [e for e in evs if e[0] == "ns"], meta)
        else:
            sts = [("stmt", s) for s in T.rdflib_store_statements(sink)]
            yield (sts, [("ns", p, str(u)) for p, u in sink.namespaces()], meta)


def iter_grouped(integration: str, data_or_file, frame_metadata=None, **kw):
    """Generator, one item per sink as it is delivered: (statements, namespaces, metadata seen then)."""
    inp = io.BytesIO(data_or_file) if isinstance(data_or_file, (bytes, bytearray)) else data_or_file
    if integration == "generic":
        it = gparse.parse_jelly_grouped(inp, frame_metadata=frame_metadata, **kw)
        for sink in it:
            meta = dict(frame_metadata.get()) if frame_metadata is not None else None
            evs = _generic_sink_events(sink)
            yield ([e for e in evs if e[0] == "stmt"], [e for e in evs if e[0] == "ns"], meta)
    else:
        it = rparse.parse_jelly_grouped(inp, frame_metadata=frame_metadata, **_rdflib_factories(kw))
        for store in it:
            meta = dict(frame_metadata.get()) if frame_metadata is not None else None
            sts = [("stmt", s) for s in T.rdflib_store_statements(store)]
            yield (sts, [("ns", p, str(u)) for p, u in store.namespaces()], meta)


def parse_grouped(integration: str, data: bytes, frame_metadata=None, **kw) -> list:
    """One entry per sink: (statements list, namespaces list, metadata seen while consuming)."""
    return list(iter_grouped(integration, data, frame_metadata=frame_metadata, **kw))


def run_flat_collect(integration: str, inp: Any, preread: bool = False, **kw) -> tuple[list, BaseException | None]:
    """Drive the flat parser item by item; return (events yielded, exception or None).

    preread: the documented two-step use - get_options_and_frames(inp) first, then parse_jelly_flat(inp, frames=, options=)."""
    mod = gparse if integration == "generic" else rparse
    conv = T.event_from_generic if integration == "generic" else T.event_from_rdflib
    out: list = []
    try:
        if preread:
            from pyjelly.parse.ioutils import get_options_and_frames
            options, frames = get_options_and_frames(inp)
            kw = dict(kw, frames=frames, options=options)
        for item in mod.parse_jelly_flat(inp, **kw):
            out.append(conv(item))
    except Exception as e:  # noqa: BLE001 - the outcome *is* the observation
        return out, e
    return out, None


def jelly_enum():
    return jelly
