"""Run a slice of a property's workload in a child interpreter started with `python -O` (assert statements compiled
away): validation that hinges on an `assert` disappears there.

parent:  childopt.run(ctx, "C16", n)          child:  python -O -m rv.childopt C16 <seed> <n>
The props module exposes  child_case(ctx, rng, k)  (k = 0..n-1); the child prints one JSON line.
"""
from __future__ import annotations

import importlib
import json
import os
import subprocess
import sys
from collections import Counter

from . import env


class StubCtx:
    tier = "quick"
    shard = 0
    nshards = 1

    def __init__(self, pid: str, seed: int):
        self.pid, self.seed = pid, seed
        self.observed: Counter = Counter()
        self.violations: list = []
        self.inconclusive: list = []
        self.cases = 0
        self.extra: dict = {}

    def rng(self, *parts):
        from .gen import rng_for
        return rng_for(self.pid, self.seed, "python-O", *parts)

    def observe(self, name, n=1):
        self.observed[name] += n

    def violation(self, w):
        if len(self.violations) < 8:
            w = {k: v for k, v in w.items() if k not in ("bytes", "original") or len(str(v)) < 60000}
            self.violations.append(w)

    def inconc(self, msg):
        self.inconclusive.append(msg)

    def case(self, *a, **k):
        self.cases += 1

    def out_of_time(self):
        return False


def run(ctx, pid: str, n: int, timeout: float = 300) -> None:
    e = dict(os.environ, PYTHONPATH=env.VERIF_DIR, PYTHONDONTWRITEBYTECODE="1", RV_NO_COVERAGE="1")
    try:
        r = subprocess.run([sys.executable, "-O", "-m", "rv.childopt", pid, str(ctx.seed), str(n)], cwd=env.VERIF_DIR, env=e,
                           capture_output=True, text=True, timeout=timeout)
        out = json.loads(r.stdout.strip().splitlines()[-1])
    except Exception as ex:  # noqa: BLE001
        ctx.inconc(f"python -O child failed: {type(ex).__name__}: {ex}")
        return
    if out["asserts_enabled"]:
        ctx.inconc("python -O child ran with assertions enabled")
        return
    ctx.observe("cases-under-python-O", out["cases"])
    for k, v in out["observed"].items():
        ctx.observe(f"python-O:{k}", v)
    for msg in out["inconclusive"][:3]:
        ctx.inconc("python -O child: " + msg)
    for w in out["violations"]:
        w["interpreter"] = "python -O"
        w["summary"] = "under python -O: " + str(w.get("summary", ""))
        ctx.violation(w)
    ctx.case(("python-O", pid, ctx.seed), out["cases"] > 0, sample={"kind": "python -O child", "cases": out["cases"]})


def main(pid: str, seed: int, n: int) -> None:
    mod = importlib.import_module(f"rv.props.c{int(pid[1:]):02d}")
    c = StubCtx(pid, seed)
    for k in range(n):
        mod.child_case(c, c.rng(k), k)
    print(json.dumps({"cases": c.cases, "observed": dict(c.observed), "violations": c.violations, "inconclusive": c.inconclusive,
                      "asserts_enabled": __debug__}, default=str))


if __name__ == "__main__":
    main(sys.argv[1], int(sys.argv[2]), int(sys.argv[3]))
