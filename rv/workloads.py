"""Shared case generators for the serializer-side properties (C01, C02, C03, C19, ...)."""
from __future__ import annotations

import random

from . import gen, pj


def generic_case(rng: random.Random, max_len: int = 60, allow_nondelimited: bool = True,
                 allow_ns: bool = False) -> tuple[dict, list, list]:
    phys = rng.choice([1, 2, 3])
    arity = 3 if phys == 1 else 4
    n = rng.choice([0, 1, 2, 3]) if rng.random() < .15 else rng.randint(2, max_len)
    stmts = gen.statements(rng, n, arity, "generic")
    ns: list = []
    preset = gen.preset_for(rng, stmts, phys, [("ns", p, i) for p, i in ns])
    entries = [e for e in pj.GENERIC_ENTRIES[phys]]
    entry = rng.choice(entries)
    delimited = True
    if allow_nondelimited and entry in ("flat_frames", "stream_frames_sink", "stream_frames_gen") \
            and rng.random() < 0.25:
        delimited = False
    if n == 0:
        # flat_* write nothing at all for an empty iterator, and an empty sink cannot tell
        # guess_stream its arity (DESIGN 7): empty inputs go through an explicit stream
        entry = rng.choice(["stream_frames_sink", "stream_frames_gen"])
    cfg = {
        "integration": "generic", "physical": phys, "entry": entry,
        "frame_size": rng.choice(gen.FRAME_SIZES), "preset": preset, "delimited": delimited,
        "logical": pj.FLAT_LOGICAL[phys], "generalized": True, "rdf_star": True,
        "ns": False, "stream_name": rng.choice(["", "", "n", "ström"]),
    }
    if entry == "sink_serialize":
        cfg["preset"] = (4000, 150, 32)
        cfg["frame_size"] = 250
    # a batching caller: frames from the generator entry points are gathered in a list before being written
    cfg["collect"] = entry in ("flat_frames", "stream_frames_sink", "stream_frames_gen") and rng.random() < 0.4
    _maybe_transport(cfg, stmts)
    return cfg, stmts, ns


def _maybe_transport(cfg: dict, stmts: list) -> None:
    """One case in twelve: the options object reaches the writer as a copy / deep copy / pickle round trip of what the
    caller configured.  (Drawn from a hash of the case, so that the case's own random stream is not disturbed.)"""
    r = gen.rng_for("options-transport", sorted((k, repr(v)) for k, v in cfg.items()), len(stmts))
    if r.random() < 1 / 12:
        cfg["options_transport"] = r.choice(["copy", "deepcopy", "pickle"])


def rdflib_case(rng: random.Random, max_len: int = 40) -> tuple[dict, list, list]:
    phys = rng.choice([1, 2, 3])
    arity = 3 if phys == 1 else 4
    n = rng.choice([1, 2, 3]) if rng.random() < .15 else rng.randint(2, max_len)
    stmts = gen.statements(rng, n, arity, "rdf11")
    preset = gen.preset_for(rng, stmts, phys)
    entry = rng.choice(pj.RDFLIB_ENTRIES[phys])
    delimited = True
    if entry in ("graph_serialize", "flat_frames", "stream_frames_gen", "stream_frames_store") \
            and rng.random() < 0.25:
        delimited = False
    empty_graphs = []
    if arity == 4 and entry in ("graph_serialize", "grouped_to_file", "stream_frames_store") and rng.random() < .3:
        # named graphs that exist in the Dataset but hold no triple (IRI- and bnode-named)
        v = gen.Vocab(rng, "rdf11")
        empty_graphs = [v.iri() if rng.random() < .8 else v.bnode() for _ in range(rng.randint(1, 3))]
        used = {s[3] for s in stmts}
        empty_graphs = [g for g in empty_graphs if g not in used]
    cfg = {
        "empty_graphs": empty_graphs,
        "integration": "rdflib", "physical": phys, "entry": entry,
        "frame_size": rng.choice(gen.FRAME_SIZES), "preset": preset, "delimited": delimited,
        "logical": pj.FLAT_LOGICAL[phys], "generalized": False, "rdf_star": False,
        "ns": False, "stream_name": "",
        "collect": entry in ("flat_frames", "stream_frames_gen", "stream_frames_store") and rng.random() < 0.4,
    }
    _maybe_transport(cfg, stmts)
    return cfg, stmts, []


def shrink_list(items: list, fails, max_tests: int = 150) -> list:
    """Greedy delta debugging: smallest sub-list (order kept) for which fails(sub) is true."""
    tests = 0
    cur = list(items)
    chunk = max(1, len(cur) // 2)
    while chunk >= 1 and tests < max_tests:
        i = 0
        progressed = False
        while i < len(cur) and tests < max_tests:
            cand = cur[:i] + cur[i + chunk:]
            tests += 1
            ok = False
            try:
                ok = bool(fails(cand))
            except Exception:  # noqa: BLE001
                ok = False
            if ok:
                cur = cand
                progressed = True
            else:
                i += chunk
        if not progressed or chunk > 1:
            chunk //= 2
    return cur


NS_PREFIXES = ["", "ex", "v", "é", "p1", "p2", "long-prefix", "x_y"]


def bindings(rng: random.Random, vocab_ns: list | None = None, k: int | None = None,
             odd_labels: bool = False, shared_iri: bool = False) -> list:
    """1:1 ordered binding list (prefix, iri), avoiding rdflib's default prefixes/namespaces."""
    k = k if k is not None else rng.randint(1, 6)
    labels = NS_PREFIXES + ([" lead", "trail ", "ta\tb"] if odd_labels else [])
    prefixes = rng.sample(labels, min(k, len(labels)))
    pool = list(vocab_ns or gen.NAMESPACES) + ["urn:x:", "nosep", "http://ex.org/ns/a", "http://ex.org/ü/"]
    iris = rng.sample(pool, min(len(prefixes), len(pool)))
    if shared_iri and len(iris) >= 2 and rng.random() < .4:
        # two different prefixes for ONE namespace (generic sinks only: an rdflib store keeps one prefix per namespace)
        a, b = rng.sample(range(len(iris)), 2)
        iris[b] = iris[a]
    return list(zip(prefixes, iris))


def serializer_case(rng: random.Random, max_len: int = 50, p_rdflib: float = 0.4,
                    p_ns: float = 0.2) -> tuple[dict, list, list]:
    """A (cfg, statements, namespace bindings) case over both integrations."""
    if rng.random() < p_rdflib:
        cfg, stmts, ns = rdflib_case(rng, max_len)
        store_entries = ("graph_serialize", "grouped_to_file", "stream_frames_store")
    else:
        cfg, stmts, ns = generic_case(rng, max_len)
        store_entries = ("grouped_to_file", "stream_frames_sink")
    if rng.random() < p_ns and cfg["entry"] in store_entries:
        ns = bindings(rng)
        cfg["ns"] = True
        cfg["params_build"] = rng.choice(["direct", "direct", "version1", "replace", "positional"])
        n, p, d = cfg["preset"]
        np_, nn, nd = gen.need_of(stmts, cfg["physical"], p > 0, [("ns", a, b) for a, b in ns])
        cfg["preset"] = (max(n, nn, 8), max(p, np_) if p else 0, d)
    return cfg, stmts, ns


def input_is_ordered(cfg: dict) -> bool:
    """Does the caller define a statement *sequence* (vs. an rdflib store's set)?"""
    return cfg["integration"] == "generic"


def valid_stream(rng: random.Random, mode: str = "generic", producer: str | None = None,
                 delimited: bool | None = None, max_len: int = 30, min_frames: int = 1,
                 with_ns: bool = True):
    """A valid stream + its intended events: {'data','delimited','events','producer','frames'} or None.

    producer 'pyjelly' = written by the tree under test (generic API), 'refenc' = reference producer.
    """
    from . import refdec, refenc, wire

    producer = producer or rng.choice(["pyjelly", "refenc"])
    if delimited is None:
        delimited = rng.random() < 0.8
    for _ in range(20):
        phys = rng.choice([1, 2, 3])
        arity = 3 if phys == 1 else 4
        stmts = gen.statements(rng, rng.randint(max(1, min_frames), max_len), arity, mode)
        if producer == "pyjelly":
            cfg = {"integration": "generic", "physical": phys, "entry": "stream_frames_gen",
                   "frame_size": rng.choice([1, 2, 3, 5, 8, 17]) if min_frames > 1 else rng.choice(gen.FRAME_SIZES),
                   "preset": gen.preset_for(rng, stmts, phys), "delimited": delimited,
                   "logical": pj.FLAT_LOGICAL[phys], "generalized": True, "rdf_star": True, "ns": False,
                   "stream_name": ""}
            try:
                data = pj.serialize(cfg, stmts)
            except Exception:  # noqa: BLE001
                continue
            events = [("stmt", s) for s in stmts]
        else:
            events = [("stmt", s) for s in stmts]
            if with_ns and rng.random() < .25:
                for prefix, iri in bindings(rng, k=2):
                    events.insert(rng.randint(0, len(events)), ("ns", prefix, iri))
            policy = refenc.Policy.random(rng)
            if min_frames > 1:
                policy.frame_cut = rng.choice(["each", "fixed", "random"])
                policy.frame_size = rng.choice([1, 2, 3, 5])
            try:
                pr = refenc.produce(rng, events, refenc.make_options(
                    rng, phys, refenc.sizes_for(rng, events, phys), any(e[0] == "ns" for e in events)),
                    policy, delimited)
            except refenc.InternalProducerError:
                raise
            except refenc.ProducerError:
                continue
            data = pr.data
        frames = wire.dec_stream(data, delimited)
        if len(frames) < min_frames:
            continue
        return {"data": data, "delimited": delimited, "events": events, "producer": producer, "frames": frames,
                "physical": phys, "mode": mode}
    return None


def crafted_header_stream(rng: random.Random, first_frame_len: int = 10):
    """A valid delimited TRIPLES stream whose FIRST frame holds only a minimal options row, so that the frame is
    exactly `first_frame_len` bytes long (10 -> header 0A 0A 08: the 0x0A coincidence of C08/C09)."""
    from . import refenc, wire

    opt = {"stream_name": "", "physical_type": 1, "generalized_statements": False, "rdf_star": False,
           "max_name_table_size": 8, "max_prefix_table_size": 0, "max_datatype_table_size": 0,
           "logical_type": 0, "version": 1}
    base = len(wire.f_bytes(1, wire.enc_row(("options", opt))))
    if first_frame_len > base:
        pad = first_frame_len - base - 2
        if pad < 1:
            opt["logical_type"] = 1          # +2 bytes
        else:
            opt["stream_name"] = "x" * pad
    v = gen.Vocab(rng, "rdf11", n_ns=1, n_local=4)
    stmts = []
    for s in gen.statements(rng, rng.randint(1, 8), 3, "rdf11", vocab=v):
        stmts.append(tuple(("lit", t[1], t[2], None) if t[0] == "lit" else t for t in s))
    events = [("stmt", s) for s in stmts]
    pol = refenc.Policy(frame_cut="random")
    pr = refenc.Producer(rng, pol, opt)
    pr.encode_events(events)
    frames = [{"rows": pr.rows[:1], "metadata": []}] + [{"rows": pr.rows[i:i + 3], "metadata": []}
                                                         for i in range(1, len(pr.rows), 3)]
    data = wire.enc_stream(frames, True)
    return {"data": data, "delimited": True, "events": events, "producer": "crafted-header", "physical": 1,
            "frames": wire.dec_stream(data, True), "mode": "rdf11", "first_frame_len": wire.dec_stream(data, True)[0]["span"][1] - 1}


def multi_sink_case(rng: random.Random, with_ns: bool = True, empty_later_sink: bool = False):
    """Several sinks written through ONE stream: (cfg, groups, ns_per_group). Bindings repeat between sinks."""
    integ = rng.choice(["generic", "rdflib"])
    grouped = rng.random() < .6
    arity = rng.choice([3, 4])
    phys = 1 if arity == 3 else 2
    logical = (rng.choice([3, 13]) if arity == 3 else rng.choice([4, 14, 114])) if grouped else FLAT_LOGICAL_OF[phys]
    mode = "rdf11"
    v = gen.Vocab(rng, mode, n_ns=3, n_local=6)
    ngroups = rng.randint(2, 5)
    groups = []
    for _ in range(ngroups):
        sts = gen.statements(rng, rng.randint(1, 6), arity, mode, vocab=v)
        seen, out = set(), []
        for st in sts:
            from .refdec import norm_stmt
            if norm_stmt(st) not in seen:
                seen.add(norm_stmt(st))
                out.append(st)
        groups.append(out)
    base_ns = bindings(rng, v.ns, k=rng.randint(1, 4)) if with_ns else []
    nss = []
    for _ in groups:
        own = list(base_ns)
        if with_ns and rng.random() < .4:
            extra = [b for b in bindings(rng, None, k=2) if b[0] not in {p for p, _ in own} and b[1] not in {i for _, i in own}]
            own += extra[:1]
        nss.append(own)
    if empty_later_sink and len(groups) >= 2 and rng.random() < .3:
        # a sink AFTER the first that has bindings but holds no statement (its declarations still belong to the stream)
        groups[rng.randrange(1, len(groups))] = []
    allst = [s for g in groups for s in g]
    need = gen.need_of(allst, phys, True, [("ns", a, b) for n in nss for a, b in n])
    small = rng.random() < .5
    preset = (max(8, need[1]) + (0 if small else 60), max(1, need[0]) + (0 if small else 10), max(1, need[2]) + 1)
    cfg = {"integration": integ, "physical": phys, "logical": logical, "frame_size": rng.choice([1, 3, 250]),
           "preset": preset, "delimited": True, "generalized": False, "rdf_star": False, "ns": with_ns,
           "stream_name": "", "via": rng.choice(["frames", "file"]), "collect": rng.random() < .3,
           "params_build": rng.choice(["direct", "direct", "version1", "replace", "positional"])}
    kind = gen.rng_for("sinks-as", repr(groups)).choice(["generator", "generator", "list", "tuple"])
    if kind != "generator":
        cfg["sinks_as"] = kind
    return cfg, groups, nss


FLAT_LOGICAL_OF = {1: 1, 2: 2, 3: 2}


def boundary_frame_case(rng: random.Random):
    """(cfg, stmts): ONE frame whose byte length lands on a length-varint boundary (127/128, 16383/16384 +- 70)."""
    integ = rng.choice(["generic", "rdflib"])
    phys = rng.choice([1, 2])
    target = rng.choice([128, 16384, 16384, 16384]) + rng.randint(-6, 135)
    stmts = []
    # ~100 bytes of fixed cost; the literal absorbs the rest, a few statements spread it
    n = rng.choice([1, 1, 3])
    per = max(1, (target - 90 - 25 * n) // n)
    for k in range(n):
        st = [("iri", "http://e/s"), ("iri", f"http://e/p{k}"), ("lit", "y" * per, None, None)]
        if phys == 2:
            st.append(("iri", "http://e/g"))
        stmts.append(tuple(st))
    cfg = {"integration": integ, "physical": phys, "entry": "stream_frames_gen", "frame_size": 250, "preset": (16, 4, 0),
           "delimited": True, "logical": FLAT_LOGICAL_OF[phys], "generalized": integ == "generic", "rdf_star": integ == "generic",
           "ns": False, "stream_name": "", "collect": False}
    return cfg, stmts, target
