"""Byte sources for the parser-side properties (C09, C10, C11, C17)."""
from __future__ import annotations

import io
import os
import socket
import threading
import time


class Stalled(Exception):
    """The parser asked for a byte that has 'not arrived yet' (C11)."""


class DribbleRaw(io.RawIOBase):
    """Non-seekable raw source returning short reads according to a schedule."""

    def __init__(self, data: bytes, schedule, repeat_last: bool = True):
        super().__init__()
        self.data = data
        self.pos = 0
        self.schedule = list(schedule) or [1]
        self.i = 0
        self.repeat_last = repeat_last
        self.log: list[tuple[int, int]] = []     # (requested, returned)

    def readable(self):
        return True

    def seekable(self):
        return False

    def readinto(self, b):
        want = len(b)
        if self.pos >= len(self.data):
            self.log.append((want, 0))
            return 0
        k = self.schedule[min(self.i, len(self.schedule) - 1)] if self.repeat_last else \
            self.schedule[self.i % len(self.schedule)]
        self.i += 1
        n = max(1, min(want, k, len(self.data) - self.pos))
        b[:n] = self.data[self.pos:self.pos + n]
        self.pos += n
        self.log.append((want, n))
        return n


class StallRaw(io.RawIOBase):
    """Delivers data[:limit] (in chunks), then raises Stalled when asked for more."""

    def __init__(self, data: bytes, limit: int, chunk: int = 1 << 30):
        super().__init__()
        self.data = data
        self.limit = limit
        self.pos = 0
        self.chunk = chunk
        self.log: list[tuple[int, int]] = []
        self.stalled = False

    def readable(self):
        return True

    def seekable(self):
        return False

    def readinto(self, b):
        want = len(b)
        if self.pos >= self.limit:
            self.stalled = True
            self.log.append((want, -1))
            raise Stalled(f"byte {self.pos} has not arrived (delivered {self.limit})")
        n = min(want, self.chunk, self.limit - self.pos)
        b[:n] = self.data[self.pos:self.pos + n]
        self.pos += n
        self.log.append((want, n))
        return n


class RecordingRaw(io.RawIOBase):
    """Wraps a real raw object (pipe/socket) and records (requested, returned)."""

    def __init__(self, raw, on_would_block=None):
        super().__init__()
        self.raw = raw
        self.log: list[tuple[int, int]] = []
        self.on_would_block = on_would_block

    def readable(self):
        return True

    def seekable(self):
        return False

    def readinto(self, b):
        if self.on_would_block is not None:
            self.on_would_block(self)
        n = self.raw.readinto(b)
        self.log.append((len(b), n if n is not None else -1))
        return n

    def close(self):
        try:
            self.raw.close()
        finally:
            super().close()


def feeder(write, close, data: bytes, chunks, delay: float = 0.0):
    """Writer thread: dribble data through write(bytes) in the given chunk sizes, then close."""

    def run():
        pos = 0
        i = 0
        try:
            while pos < len(data):
                k = chunks[min(i, len(chunks) - 1)]
                i += 1
                write(data[pos:pos + k])
                pos += k
                if delay:
                    time.sleep(delay)
        except (BrokenPipeError, OSError):
            pass
        finally:
            try:
                close()
            except OSError:
                pass

    t = threading.Thread(target=run, daemon=True)
    t.start()
    return t


def pipe_source(data: bytes, chunks, buffered: bool, delay: float = 0.0):
    """Real os.pipe fed by a writer thread. Returns (file object, recorder, thread)."""
    r, w = os.pipe()
    t = feeder(lambda b: os.write(w, b), lambda: os.close(w), data, chunks, delay)
    raw = RecordingRaw(io.FileIO(r, "rb", closefd=True))
    return (io.BufferedReader(raw) if buffered else raw), raw, t


def socket_source(data: bytes, chunks, buffered: bool, delay: float = 0.0):
    """Real socketpair fed by a writer thread. Returns (file object, recorder, thread)."""
    a, b = socket.socketpair()
    t = feeder(a.sendall, lambda: (a.shutdown(socket.SHUT_WR), a.close()), data, chunks, delay)
    raw = RecordingRaw(socket.SocketIO(b, "rb"))
    raw._sock = b  # keep alive
    return (io.BufferedReader(raw) if buffered else raw), raw, t


class FailingRaw(DribbleRaw):
    """Non-seekable raw source whose transport FAILS once `fail_at` bytes were delivered: the read raises exc_type
    (ConnectionResetError, BrokenPipeError, TimeoutError, ...) instead of returning data or end-of-file."""

    def __init__(self, data: bytes, schedule, fail_at: int, exc_type=ConnectionResetError):
        super().__init__(data, schedule)
        self.fail_at = fail_at
        self.exc_type = exc_type

    def readinto(self, b):
        if self.pos >= self.fail_at:
            self.log.append((len(b), -2))
            raise self.exc_type("transport failed (injected)")
        keep = self.data
        try:
            self.data = keep[:self.fail_at]          # never deliver beyond the failure point
            return super().readinto(b)
        finally:
            self.data = keep


class EOFSpin(BaseException):
    """The reader keeps polling a source that has signalled end-of-file (a hang in the making).

    Derived from BaseException so that no `except Exception` in the code under test can swallow it."""


class SeekableDribbleRaw(DribbleRaw):
    """Seekable raw source (a file on a slow medium, a range-request reader) with short reads."""

    def seekable(self):
        return True

    def tell(self):
        return self.pos

    def seek(self, off, whence=0):
        if whence == 0:
            new = off
        elif whence == 1:
            new = self.pos + off
        else:
            new = len(self.data) + off
        if new < 0:
            raise OSError(22, "negative seek position")
        self.pos = new
        return self.pos


class SpinGuardRaw(DribbleRaw):
    """DribbleRaw that raises EOFSpin once it has answered `limit` reads at end-of-file (logical-step watchdog)."""

    def __init__(self, data: bytes, schedule, limit: int = 2000, seekable: bool = False):
        super().__init__(data, schedule)
        self.eof_reads = 0
        self.limit = limit
        self._seekable = seekable

    def seekable(self):
        return self._seekable

    def readinto(self, b):
        if self.pos >= len(self.data):
            self.eof_reads += 1
            if self.eof_reads > self.limit:
                raise EOFSpin(f"{self.eof_reads} reads answered with end-of-file and the reader is still asking")
        return super().readinto(b)


def compressed_file_sources(data: bytes, tmpdir: str):
    """[(name, factory)]: the bytes inside a gzip / bz2 / xz FILE on disk, opened with the module's open(): a seekable
    reader whose fileno()/fstat describe the COMPRESSED file while tell()/read() work on the content."""
    import bz2
    import gzip
    import lzma
    import os
    out = []
    for name, mod in (("gzip", gzip), ("bz2", bz2), ("xz", lzma)):
        path = os.path.join(tmpdir, f"probe.jelly.{name}")
        with mod.open(path, "wb") as f:
            f.write(data)
        out.append((f"{name}-file-on-disk", lambda m=mod, p=path: m.open(p, "rb")))
    return out


def header_probe_sources(data: bytes):
    """[(name, factory)]: file objects over `data` whose FIRST look at the stream is awkward in a different way each
    (short first reads, look-ahead that shows fewer than three bytes, positions other than 0).  All are legitimate
    binary file objects a caller may hand to the parser."""
    import gzip

    big = 1 << 20
    out = [("bytesio", lambda: io.BytesIO(data))]
    for sched in ([1], [2], [1, big], [2, big], [1, 1, big]):
        tag = "-".join("k" if x == big else str(x) for x in sched)
        out.append((f"raw-nonseekable[{tag}]", lambda s=sched: DribbleRaw(data, s)))
        out.append((f"buffered-nonseekable[{tag}]", lambda s=sched: io.BufferedReader(DribbleRaw(data, s))))
        out.append((f"buffered-seekable[{tag}]", lambda s=sched: io.BufferedReader(SeekableDribbleRaw(data, s))))

    def tail_of_buffer(k: int, bufsize: int):
        # the caller already consumed a container header through the same BufferedReader; only k bytes of the
        # stream are left in its buffer when the parser gets it
        pre = b"\x00" * (bufsize - k)
        f = io.BufferedReader(io.BytesIO(pre + data), buffer_size=bufsize)
        f.read(len(pre))
        return f
    for k in (1, 2):
        for bufsize in (16, 8192):
            out.append((f"buffered-seekable-tail{k}-of-{bufsize}", lambda k=k, b=bufsize: tail_of_buffer(k, b)))
    comp = gzip.compress(data)
    # (GzipFile reads its two magic bytes with one read(2): schedules start with >= 2)
    out.append(("gzip-over-dribbling-seekable[2]", lambda: gzip.GzipFile(fileobj=SeekableDribbleRaw(comp, [2]), mode="rb")))
    out.append(("gzip-over-dribbling-seekable[2-k]", lambda: gzip.GzipFile(fileobj=SeekableDribbleRaw(comp, [2, big]), mode="rb")))
    return out
