"""Shard runner, verdict merging, evidence, replays and known findings."""
from __future__ import annotations

import hashlib
import importlib
import json
import os
import shutil
import subprocess
import sys
import time
import traceback
from collections import Counter
from typing import Any

from . import env

VERIF = env.VERIF_DIR
# runs against a scratch copy (mutation campaign) must not overwrite the real evidence / replays
_ALT = os.environ.get("RV_OUT_DIR")
EVIDENCE_DIR = os.path.join(_ALT, "evidence") if _ALT else os.path.join(VERIF, "evidence")
REPLAY_DIR = os.path.join(_ALT, "replays") if _ALT else os.path.join(VERIF, "replays")
KNOWN_FILE = os.path.join(VERIF, "known_findings.json")
PY = sys.executable

MAX_HASHES_PER_SHARD = 300_000


def prop_module(pid: str):
    return importlib.import_module(f"rv.props.{pid.lower()}")


class Ctx:
    """What a property workload sees: PRNG, budget, and the recording API."""

    def __init__(self, pid: str, tier: str, seed: int, shard: int, nshards: int, budget_s: float):
        self.pid = pid
        self.tier = tier
        self.seed = seed
        self.shard = shard
        self.nshards = nshards
        self.t0 = time.monotonic()
        self.deadline = self.t0 + budget_s
        self.evaluations = 0
        self.nontrivial: set[str] = set()
        self.samples: list = []
        self.observed: Counter = Counter()
        self.violations: list = []
        self.inconclusive: list = []
        self.extra: dict = {}
        self.max_samples = 3
        self.classify = None
        self.per_key: Counter = Counter()

    # ---- workload helpers
    def rng(self, *parts: Any):
        from .gen import rng_for

        if not __debug__:
            # the mirror shard started with python -O takes the same partition of the finite tables as the shard it
            # mirrors, but its own random cases
            return rng_for(self.pid, self.seed, self.shard, "python -O", *parts)
        return rng_for(self.pid, self.seed, self.shard, *parts)

    def time_left(self) -> float:
        return self.deadline - time.monotonic()

    def out_of_time(self) -> bool:
        return time.monotonic() >= self.deadline

    def case(self, key: Any, nontrivial: bool, sample: Any = None):
        """Record one evaluated case; key identifies it for distinctness."""
        self.evaluations += 1
        if nontrivial and len(self.nontrivial) < MAX_HASHES_PER_SHARD:
            h = key if isinstance(key, str) and len(key) == 16 else \
                hashlib.sha256(repr(key).encode()).hexdigest()[:16]
            if h not in self.nontrivial:
                self.nontrivial.add(h)
                if sample is not None and len(self.samples) < self.max_samples:
                    self.samples.append(sample)

    def observe(self, name: str, n: int = 1):
        self.observed[name] += n

    def observe_all(self, counter, prefix: str = ""):
        for k, v in counter.items():
            self.observed[prefix + str(k)] += v

    def violation(self, witness: dict):
        """Record a violation witness; capped per mechanism so known findings cannot crowd out fresh ones."""
        if getattr(self, "ambient", None):
            witness.setdefault("ambient", self.ambient)
        if getattr(self, "ambient_interpreter", None):
            witness.setdefault("interpreter", self.ambient_interpreter)
            if not str(witness.get("summary", "")).startswith("under python -O"):
                witness["summary"] = "under python -O: " + str(witness.get("summary", ""))
        key = None
        if self.classify is not None:
            try:
                key = self.classify(witness)
            except Exception:  # noqa: BLE001
                key = None
        self.per_key[key] += 1
        if self.per_key[key] <= (40 if key is None else 4):
            self.violations.append(witness)
        self.observed["violations-raw"] += 1
        self.observed[f"violations-raw:{key}"] += 1

    def inconc(self, reason: str):
        if len(self.inconclusive) < 20:
            self.inconclusive.append(reason)

    def result(self) -> dict:
        return {
            "evaluations": self.evaluations,
            "nontrivial": sorted(self.nontrivial),
            "samples": self.samples,
            "observed": dict(self.observed),
            "violations": self.violations,
            "inconclusive": self.inconclusive,
            "extra": self.extra,
            "wall_s": time.monotonic() - self.t0,
        }


# --------------------------------------------------------------- shard entry

def shard_main(argv: list[str]) -> int:
    pid, tier, seed, shard, nshards, budget, outfile = argv
    ctx = Ctx(pid, tier, int(seed), int(shard), int(nshards), float(budget))
    cov = None
    try:
        env.pin()
        from . import coverage

        cov = coverage.start()
        mod = prop_module(pid)
        ctx.classify = getattr(mod, "classify", None)
        if not __debug__:
            ctx.observe("ambient:python-O-mirror-shard")
            ctx.ambient_interpreter = "python -O"
        elif ctx.nshards > 1 and ctx.shard == ctx.nshards - 1:
            # ambient process configuration: the last shard of every check runs the way a developer's process does,
            # with DEBUG logging effective for every logger (no output: a null handler)
            import logging
            logging.basicConfig(level=logging.DEBUG, handlers=[logging.NullHandler()], force=True)
            ctx.observe("ambient:debug-logging-shard")
            ctx.ambient = "debug-logging"
        mod.run_shard(ctx)
    except env.EnvError as e:
        ctx.inconc(f"environment: {e}")
    except Exception as e:  # noqa: BLE001 - a crashed harness is inconclusive, never "held"
        ctx.inconc(f"harness error in shard {shard}: {type(e).__name__}: {e}\n"
                   + traceback.format_exc()[-1500:])
    res = ctx.result()
    if cov is not None:
        res["coverage"] = cov.stop()
    tmp = outfile + ".tmp"
    with open(tmp, "w") as f:
        json.dump(res, f)
    os.replace(tmp, outfile)
    return 0


# --------------------------------------------------------------- known findings

def load_known() -> list[dict]:
    if not os.path.exists(KNOWN_FILE):
        return []
    with open(KNOWN_FILE) as f:
        return json.load(f).get("findings", [])


def open_keys(pid: str) -> dict[str, dict]:
    return {k["key"]: k for k in load_known()
            if k.get("property") == pid and k.get("status") == "open"}


# --------------------------------------------------------------- parent

def run_check(pid: str, tier: str, seed: int) -> int:
    t0 = time.monotonic()
    mod = prop_module(pid)
    plan = mod.plan(tier) if hasattr(mod, "plan") else {}
    nshards = int(os.environ.get("VERIF_SHARDS", plan.get("shards", 4 if tier == "quick" else 16)))
    budget = float(os.environ.get("VERIF_BUDGET", plan.get("budget_s", 40 if tier == "quick" else 420)))
    hard_timeout = budget * 3 + 120
    work = os.path.join(VERIF, ".work", f"{pid}-{os.getpid()}")
    os.makedirs(work, exist_ok=True)
    child_env = dict(os.environ)
    child_env["PYTHONPATH"] = VERIF
    child_env["PYTHONDONTWRITEBYTECODE"] = "1"
    child_env.setdefault("PYTHONHASHSEED", "0")
    child_env[env.GUARD] = "1"
    procs = []
    for i in range(nshards):
        out = os.path.join(work, f"shard{i}.json")
        log = open(os.path.join(work, f"shard{i}.log"), "w")
        p = subprocess.Popen(
            [PY, "-X", "faulthandler", "-m", "rv.shard", pid, tier, str(seed), str(i),
             str(nshards), str(budget), out],
            cwd=VERIF, env=child_env, stdout=log, stderr=subprocess.STDOUT)
        procs.append((i, p, out, log))
    if os.environ.get("RV_NO_O_MIRROR") != "1":
        # one more shard, started with python -O (assert statements compiled away, __debug__ false): it mirrors shard
        # (seed mod nshards) - same slice of every finite enumeration, other random cases
        j = seed % nshards
        out = os.path.join(work, "shardO.json")
        log = open(os.path.join(work, "shardO.log"), "w")
        p = subprocess.Popen(
            [PY, "-O", "-X", "faulthandler", "-m", "rv.shard", pid, tier, str(seed), str(j), str(nshards), str(budget), out],
            cwd=VERIF, env=dict(child_env, RV_NO_COVERAGE="1"), stdout=log, stderr=subprocess.STDOUT)
        procs.append(("O", p, out, log))
    results = []
    inconclusive = []
    for i, p, out, log in procs:
        remaining = max(1.0, hard_timeout - (time.monotonic() - t0))
        try:
            rc = p.wait(timeout=remaining)
        except subprocess.TimeoutExpired:
            p.kill()
            p.wait()
            rc = None
        log.close()
        if rc is None:
            inconclusive.append(f"shard {i} exceeded the wall-clock watchdog ({hard_timeout:.0f}s)")
            continue
        if not os.path.exists(out):
            tail = open(os.path.join(work, f"shard{i}.log")).read()[-800:]
            inconclusive.append(f"shard {i} died rc={rc}: {tail}")
            continue
        with open(out) as f:
            results.append(json.load(f))

    merged = merge(results)
    merged["inconclusive"].extend(inconclusive)
    if hasattr(mod, "finalize"):
        try:
            mod.finalize(merged, tier, seed)
        except Exception as e:  # noqa: BLE001
            merged["inconclusive"].append(f"finalize failed: {type(e).__name__}: {e}")
    rc = conclude(pid, mod, tier, seed, merged, time.monotonic() - t0)
    shutil.rmtree(work, ignore_errors=True)
    return rc


def merge(results: list[dict]) -> dict:
    m = {"evaluations": 0, "nontrivial": set(), "samples": [], "observed": Counter(),
         "violations": [], "inconclusive": [], "extra": [], "coverage": {}, "shards": len(results)}
    for r in results:
        m["evaluations"] += r["evaluations"]
        m["nontrivial"].update(r["nontrivial"])
        for s in r["samples"]:
            if len(m["samples"]) < 4:
                m["samples"].append(s)
        m["observed"].update(r["observed"])
        m["violations"].extend(r["violations"])
        m["inconclusive"].extend(r["inconclusive"])
        m["extra"].append(r.get("extra", {}))
        for f, lines in (r.get("coverage") or {}).items():
            m["coverage"].setdefault(f, set()).update(lines)
    return m


def conclude(pid: str, mod, tier: str, seed: int, merged: dict, wall: float) -> int:
    known = open_keys(pid)
    fresh = []
    known_hits: Counter = Counter()
    known_example: dict = {}
    for w in merged["violations"]:
        key = None
        if hasattr(mod, "classify"):
            try:
                key = mod.classify(w)
            except Exception:  # noqa: BLE001
                key = None
        w["mechanism"] = key
        if key is not None and key in known:
            known_hits[key] = merged["observed"].get(f"violations-raw:{key}", 0) or known_hits[key] + 1
            known_example.setdefault(key, w)
        else:
            fresh.append(w)

    distinct = len(merged["nontrivial"])
    min_nontrivial = getattr(mod, "MIN_NONTRIVIAL", 2)
    if merged["evaluations"] == 0:
        merged["inconclusive"].append("no case was evaluated")
    elif distinct < min_nontrivial:
        merged["inconclusive"].append(
            f"only {distinct} distinct non-trivial cases (< {min_nontrivial}): the deciding monitor was hardly reached")
    if hasattr(mod, "REQUIRED_OBSERVED"):
        for name in mod.REQUIRED_OBSERVED:
            if merged["observed"].get(name, 0) == 0:
                merged["inconclusive"].append(f"monitor counter '{name}' is zero: never reached")

    from . import coverage

    cov_summary = coverage.summarise(merged["coverage"], getattr(mod, "ANCHORS", []),
                                     getattr(mod, "MARKERS", {}))
    ev = {
        "property_id": pid,
        "tier": tier,
        "seed": seed,
        "level": getattr(mod, "LEVEL", "exploration"),
        "coverage": {
            "evaluations": merged["evaluations"],
            "distinct_nontrivial": distinct,
            "rule": mod.RULE,
            "samples": merged["samples"] or [{"note": "no non-trivial sample recorded"}],
            "observed": dict(sorted(merged["observed"].items())),
            "anchored_code_executed": cov_summary,
            "shards": merged["shards"],
            "known_findings_reproduced": dict(known_hits),
            "inconclusive": merged["inconclusive"][:10],
        },
        "assumptions": getattr(mod, "ASSUMPTIONS", []),
        "wall_s": round(wall, 2),
        "violations": len(fresh),
    }
    for extra_key, fn in getattr(mod, "EVIDENCE_EXTRA", {}).items():
        try:
            ev["coverage"][extra_key] = fn(merged)
        except Exception as e:  # noqa: BLE001
            ev["coverage"][extra_key] = f"error: {e}"
    if getattr(mod, "EXHAUSTIVE", None) is not None:
        try:
            ev["coverage"]["exhaustive"] = bool(mod.EXHAUSTIVE(merged, tier))
        except Exception:  # noqa: BLE001
            pass
    os.makedirs(EVIDENCE_DIR, exist_ok=True)
    with open(os.path.join(EVIDENCE_DIR, f"{pid}.json"), "w") as f:
        json.dump(ev, f, indent=1, default=str)
        f.write("\n")

    print(f"[{pid}] tier={tier} seed={seed} evaluations={merged['evaluations']} "
          f"distinct_nontrivial={distinct} wall={wall:.1f}s")
    for key, n in sorted(known_hits.items()):
        what = known[key].get("what", "")
        print(f"KNOWN-FINDING: property={pid} {key} ({n} witnesses this run) {what}")
    if fresh:
        os.makedirs(REPLAY_DIR, exist_ok=True)
        seen = set()
        for w in fresh:
            sig = (w.get("mechanism"), w.get("clause"), w.get("summary", "")[:60])
            if sig in seen and len(seen) >= 1:
                continue
            seen.add(sig)
            if len(seen) > 6:
                break
            digest = hashlib.sha256(json.dumps(w, sort_keys=True, default=str).encode()).hexdigest()[:12]
            path = os.path.join(REPLAY_DIR, f"{pid}-{digest}.json")
            with open(path, "w") as f:
                json.dump({"property": pid, "witness": w}, f, indent=1, default=str)
            print(f"VIOLATION property={pid} replay={path}")
            print(f"  clause={w.get('clause')} mechanism={w.get('mechanism')} {w.get('summary', '')[:300]}")
        return 1
    if merged["inconclusive"]:
        for r in merged["inconclusive"][:5]:
            print(f"INCONCLUSIVE property={pid} reason={r[:400]}")
        return 2
    print(f"[{pid}] held on everything explored" + (" (apart from the known findings listed above)" if known_hits else ""))
    return 0


def run_replay(pid: str, path: str) -> int:
    env.pin()
    mod = prop_module(pid)
    with open(path) as f:
        doc = json.load(f)
    w = doc["witness"]
    if w.get("interpreter") == "python -O" and __debug__:
        # the witness was observed in an interpreter started with -O: replay it in one
        r = subprocess.run([sys.executable, "-O", "-X", "faulthandler", "-m", "rv.cli", pid, "quick", "--replay", path],
                           cwd=VERIF, env=dict(os.environ, PYTHONPATH=VERIF, PYTHONDONTWRITEBYTECODE="1"))
        return r.returncode
    if w.get("ambient") == "pyjelly-warnings-as-errors":
        import warnings
        warnings.filterwarnings("error", module=r"pyjelly(\..*)?$")
    if w.get("ambient") == "debug-logging":
        import logging
        logging.basicConfig(level=logging.DEBUG, handlers=[logging.NullHandler()], force=True)
    res = mod.replay(w)
    if res:
        print(f"VIOLATION property={pid} replay={path}")
        print(f"  clause={res.get('clause')} {res.get('summary', '')[:300]}")
        return 1
    print(f"[{pid}] replay {path}: no violation")
    return 0
