"""rv - runtime-verification machinery for the pyjelly properties (see /verif/DESIGN.md)."""
