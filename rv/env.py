"""Environment pinning: import pyjelly from the tree under test, never from the wheel.

Every rv process calls :func:`pin` before importing anything from pyjelly.
``VERIF_REPO`` (default ``/repo``) names the tree under test.  The compiled
pyjelly wheel in ``/venv`` would otherwise shadow it from any cwd != /repo.
"""
from __future__ import annotations

import os
import sys

VERIF_DIR = os.path.dirname(os.path.dirname(os.path.abspath(__file__)))
REPO = os.path.abspath(os.environ.get("VERIF_REPO", "/repo"))
DEPS = os.path.join(VERIF_DIR, ".deps")
GUARD = "PYJELLY_VERIF"

_pinned = False


class EnvError(RuntimeError):
    """The harness cannot observe the tree under test (-> INCONCLUSIVE)."""


def pin() -> None:
    """Make ``import pyjelly`` resolve to ``$VERIF_REPO/pyjelly/*.py``."""
    global _pinned
    if _pinned:
        return
    os.environ.setdefault(GUARD, "1")
    sys.dont_write_bytecode = True
    # drop any earlier occurrence, then put the repo first
    sys.path[:] = [p for p in sys.path if os.path.abspath(p or ".") != REPO]
    sys.path.insert(0, REPO)
    if os.path.isdir(DEPS) and DEPS not in sys.path:
        sys.path.append(DEPS)
    for name in [m for m in sys.modules if m == "pyjelly" or m.startswith("pyjelly.")]:
        del sys.modules[name]
    import rdflib  # noqa: F401  (imported before the plugin lookup below)
    import pyjelly  # noqa: F401
    import pyjelly.integrations.generic.parse  # noqa: F401
    import pyjelly.integrations.generic.serialize  # noqa: F401
    import pyjelly.integrations.rdflib.parse  # noqa: F401
    import pyjelly.integrations.rdflib.serialize  # noqa: F401

    verify_source_tree()
    _register_rdflib_plugins()
    _pinned = True


def verify_source_tree() -> None:
    bad = []
    for name, mod in list(sys.modules.items()):
        if name == "pyjelly" or name.startswith("pyjelly."):
            f = getattr(mod, "__file__", None)
            if f is None:
                continue
            f = os.path.abspath(f)
            if not f.startswith(REPO + os.sep) or not f.endswith(".py"):
                bad.append((name, f))
    if bad:
        raise EnvError(f"pyjelly not imported from source tree {REPO}: {bad[:3]}")


def _register_rdflib_plugins() -> None:
    """Register the tree-under-test's rdflib plugins under format name 'jelly'.

    The installed wheel's entry points name the same module paths
    (``pyjelly.integrations.rdflib.parse:RDFLibJellyParser``), and since our
    sys.path puts the repo first they already resolve to the working tree; the
    explicit registration only makes this independent of entry-point metadata.
    """
    import rdflib.plugin
    from rdflib.parser import Parser
    from rdflib.serializer import Serializer

    for kind, module, cls in (
        (Parser, "pyjelly.integrations.rdflib.parse", "RDFLibJellyParser"),
        (Serializer, "pyjelly.integrations.rdflib.serialize", "RDFLibJellySerializer"),
    ):
        # drop a pre-existing registration (entry point of the installed wheel)
        rdflib.plugin._plugins.pop(("jelly", kind), None)
        rdflib.plugin.register("jelly", kind, module, cls)
        got = rdflib.plugin.get("jelly", kind)
        f = os.path.abspath(sys.modules[got.__module__].__file__)
        if not f.startswith(REPO + os.sep):
            raise EnvError(f"rdflib plugin 'jelly' resolves outside the tree: {f}")
