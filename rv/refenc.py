"""Reference producer: encodes neutral events into a spec-valid Jelly stream while
making every choice the format leaves open from a PRNG-driven policy.

Every stream produced here is decoded by :mod:`rv.refdec` before use; if that
does not give back exactly the intended events the case is an *internal error*
of the harness (never a pyjelly violation).
"""
from __future__ import annotations

import random
from collections import Counter
from dataclasses import dataclass, field
from typing import Any

from . import refdec, wire
from .refdec import norm_term
from .terms import iter_terms


class ProducerError(RuntimeError):
    """The requested stream cannot be produced (e.g. tables too small for a row)."""


class InternalProducerError(ProducerError):
    """Reference producer and reference decoder disagree: a harness bug, exit 2."""


@dataclass
class Policy:
    split: str = "sep"             # sep | random | none | all-prefix | mixed
    evict: str = "lru"             # lru | fifo | mru | random
    p_explicit_id: float = 0.0     # explicit id although the zero form is legal
    p_elide: float = 1.0           # probability of eliding a repeated term
    p_early: float = 0.0           # entries defined before they are needed
    p_redundant: float = 0.0       # resident value re-sent
    p_random_slot: float = 0.0     # fill a random free slot instead of the next one
    p_empty_frame: float = 0.0
    p_metadata: float = 0.0
    p_options_repeat: float = 0.0
    p_split_graph: float = 0.0     # GRAPHS: close and reopen the same graph
    p_empty_graph: float = 0.0     # GRAPHS: graph_start / graph_end blocks without any triple
    p_implicit_empty_prefix: float = 0.8   # IRI without a prefix at the very start: prefix id 0 and NO entry for ""
    frame_cut: str = "random"      # random | one | each | fixed
    frame_size: int = 5

    @staticmethod
    def random(rng: random.Random) -> "Policy":
        z = lambda p: rng.choice([0.0, 0.0, p])  # noqa: E731
        return Policy(
            split=rng.choice(["sep", "random", "none", "all-prefix", "mixed"]),
            evict=rng.choice(["lru", "fifo", "mru", "random"]),
            p_explicit_id=rng.choice([0.0, 0.3, 1.0]),
            p_elide=rng.choice([1.0, 0.5, 0.0]),
            p_early=z(0.3), p_redundant=z(0.2), p_random_slot=z(0.4),
            p_empty_frame=z(0.2), p_metadata=z(0.3), p_options_repeat=z(0.15),
            p_split_graph=z(0.3), p_empty_graph=z(0.2),
            frame_cut=rng.choice(["random", "one", "each", "fixed"]),
            frame_size=rng.choice([1, 2, 3, 7, 20]),
        )

    @staticmethod
    def plain() -> "Policy":
        return Policy()

    def exotic_features(self) -> int:
        """How many of the 'legal but unlike pyjelly's writer' choices are switched on."""
        return sum([
            self.evict != "lru", self.split != "sep", self.p_explicit_id > 0,
            self.p_early > 0, self.p_redundant > 0, self.p_options_repeat > 0,
            self.p_empty_frame > 0, self.p_elide < 1.0, self.p_random_slot > 0,
            self.p_split_graph > 0, self.p_metadata > 0, self.p_empty_graph > 0,
        ])


class _Tab:
    def __init__(self, name: str, size: int):
        self.name = name
        self.size = size
        self.slots: dict[int, str] = {}
        self.last_entry = 0
        self.use_order: list[int] = []     # LRU order of slots (least recent first)
        self.fill_order: list[int] = []    # FIFO order

    def resident(self, value: str) -> list[int]:
        return [s for s, v in self.slots.items() if v == value]

    def touch(self, slot: int):
        if slot in self.use_order:
            self.use_order.remove(slot)
        self.use_order.append(slot)


@dataclass
class Produced:
    frames: list
    rows: list
    options: dict
    delimited: bool
    data: bytes
    events: list
    used: Counter = field(default_factory=Counter)


class Producer:
    def __init__(self, rng: random.Random, policy: Policy, options: dict):
        self.rng = rng
        self.pol = policy
        self.opt = options
        self.N = _Tab("name", options["max_name_table_size"])
        self.P = _Tab("prefix", options["max_prefix_table_size"])
        self.D = _Tab("datatype", options["max_datatype_table_size"])
        self.ln = 0
        self.lp = 0
        self.prev: dict[str, Any] = {"s": None, "p": None, "o": None, "g": None}
        self.rows: list = []
        self.used: Counter = Counter()
        self.pinned: dict[str, set] = {"name": set(), "prefix": set(), "datatype": set()}

    # ------------------------------------------------------------ tables
    def _choose_slot(self, t: _Tab) -> int:
        pinned = self.pinned[t.name]
        free = [i for i in range(1, t.size + 1) if i not in t.slots]
        if free:
            if self.rng.random() < self.pol.p_random_slot:
                self.used["random-free-slot"] += 1
                return self.rng.choice(free)
            nxt = t.last_entry + 1
            return nxt if nxt in free else free[0]
        cand = [s for s in range(1, t.size + 1) if s not in pinned]
        if not cand:
            raise ProducerError(f"{t.name} table too small for one row")
        pol = self.pol.evict
        if pol == "lru":
            order = [s for s in t.use_order if s in cand] or cand
            return order[0]
        self.used[f"evict-{pol}"] += 1
        if pol == "fifo":
            order = [s for s in t.fill_order if s in cand] or cand
            return order[0]
        if pol == "mru":
            order = [s for s in t.use_order if s in cand] or cand
            return order[-1]
        return self.rng.choice(cand)

    def _emit_entry(self, t: _Tab, slot: int, value: str):
        if slot == t.last_entry + 1 and self.rng.random() >= self.pol.p_explicit_id:
            eid = 0
        else:
            if slot == t.last_entry + 1:
                self.used["explicit-entry-id"] += 1
            eid = slot
        self.rows.append((t.name, {"id": eid, "value": value}))
        if slot in t.slots:
            self.used[f"{t.name}-eviction"] += 1
        t.slots[slot] = value
        t.last_entry = slot
        if slot in t.fill_order:
            t.fill_order.remove(slot)
        t.fill_order.append(slot)
        t.touch(slot)

    def _ensure(self, t: _Tab, value: str) -> int:
        """Return a slot holding value, emitting an entry row when needed (or wanted)."""
        res = t.resident(value)
        if res:
            slot = self.rng.choice(res) if len(res) > 1 else res[0]
            if self.rng.random() < self.pol.p_redundant:
                self.used["redundant-entry"] += 1
                if self.rng.random() < .5:
                    self._emit_entry(t, slot, value)
                else:
                    # first protect the resident copy, then re-send elsewhere if possible
                    self.pinned[t.name].add(slot)
                    try:
                        other = self._choose_slot(t)
                    except ProducerError:
                        other = slot
                    self._emit_entry(t, other, value)
                    slot = other
        else:
            slot = self._choose_slot(t)
            self._emit_entry(t, slot, value)
        t.touch(slot)
        self.pinned[t.name].add(slot)
        return slot

    def _early(self, future_terms):
        """Define entries for terms of later rows ahead of time."""
        for top in future_terms:
            for term in iter_terms(top):
                if self.rng.random() >= self.pol.p_early:
                    continue
                if term[0] == "iri":
                    pre, name = self._split(term[1])
                    try:
                        if pre is not None and not self.P.resident(pre):
                            self._emit_entry(self.P, self._choose_slot(self.P), pre)
                            self.used["early-entry"] += 1
                        if not self.N.resident(name):
                            self._emit_entry(self.N, self._choose_slot(self.N), name)
                            self.used["early-entry"] += 1
                    except ProducerError:
                        return

    # ------------------------------------------------------------ terms
    def _split(self, iri: str) -> tuple[str | None, str]:
        """(prefix or None for 'no prefix id', name)."""
        if self.P.size == 0:
            return None, iri
        mode = self.pol.split
        if mode == "mixed":
            mode = self.rng.choice(["sep", "random", "none", "all-prefix"])
        if mode == "sep":
            for sep in "#/":
                i = iri.rfind(sep)
                if i >= 0:
                    return iri[: i + 1], iri[i + 1:]
            return "", iri
        if mode != "sep":
            self.used[f"split-{mode}"] += 1
        if mode == "random":
            i = self.rng.randint(0, len(iri))
            return iri[:i], iri[i:]
        if mode == "none":
            return "", iri
        return iri, ""           # all-prefix

    def _iri(self, iri: str) -> tuple:
        pre, name = self._split(iri)
        # prefix
        if pre is None:
            pid = 0
            if self.lp != 0:
                raise ProducerError("prefix table disabled but lp != 0")
        elif pre == "" and self.lp == 0 and self.rng.random() < self.pol.p_implicit_empty_prefix:
            pid = 0                                # empty prefix, nothing selected so far
            self.used["empty-prefix-implicit"] += 1
        else:
            slot = self._ensure(self.P, pre)
            if slot == self.lp and self.rng.random() >= self.pol.p_explicit_id:
                pid = 0
            else:
                if slot == self.lp:
                    self.used["explicit-prefix-id"] += 1
                pid = slot
            self.lp = slot
        # name
        slot = self._ensure(self.N, name)
        if slot == self.ln + 1 and self.rng.random() >= self.pol.p_explicit_id:
            nid = 0
        else:
            if slot == self.ln + 1:
                self.used["explicit-name-id"] += 1
            nid = slot
        self.ln = slot
        return ("iri", pid, nid)

    def _term(self, t: tuple) -> tuple:
        k = t[0]
        if k == "iri":
            return self._iri(t[1])
        if k == "bnode":
            return ("bnode", t[1])
        if k == "default":
            return ("default",)
        if k == "lit":
            _, lex, lang, dt = t
            if lang:
                return ("lit", lex, "lang", lang)
            if dt:
                if self.D.size == 0:
                    raise ProducerError("typed literal but datatype table disabled")
                return ("lit", lex, "dt", self._ensure(self.D, dt))
            return ("lit", lex, "simple", None)
        if k == "triple":
            return ("triple", {"s": self._term(t[1]), "p": self._term(t[2]), "o": self._term(t[3])})
        raise ProducerError(f"bad term {t!r}")

    def _stmt_body(self, st: tuple, slots: str) -> dict:
        body = {}
        for slot, term in zip(slots, st):
            pv = self.prev[slot]
            if pv is not None and norm_term(pv) == norm_term(term) and self.rng.random() < self.pol.p_elide:
                self.used["elision"] += 1
                continue
            if pv is not None and norm_term(pv) == norm_term(term):
                self.used["elision-declined"] += 1
            body[slot] = self._term(term)
            self.prev[slot] = term
        return body

    def _unpin(self):
        for s in self.pinned.values():
            s.clear()

    # ------------------------------------------------------------ rows
    def options_row(self):
        self.rows.append(("options", dict(self.opt)))

    def encode_events(self, events: list):
        phys = self.opt["physical_type"]
        self.options_row()
        open_g: Any = None
        n = len(events)
        for i, ev in enumerate(events):
            if self.rng.random() < self.pol.p_options_repeat:
                self.options_row()
                self.used["options-repeat"] += 1
            if self.pol.p_early and i + 1 < n:
                fut = events[i + 1: i + 3]
                self._early([t for e in fut if e[0] == "stmt" for t in e[1]])
            self._unpin()
            if ev[0] == "ns":
                iri = self._iri(ev[2])
                self.rows.append(("namespace", {"name": ev[1], "value": iri}))
                continue
            st = ev[1]
            if phys == 1:
                self.rows.append(("triple", self._stmt_body(st, "spo")))
            elif phys == 2:
                self.rows.append(("quad", self._stmt_body(st, "spog")))
            else:
                g = st[3]
                reopen = open_g is not None and norm_term(open_g) == norm_term(g) \
                    and self.rng.random() < self.pol.p_split_graph
                if open_g is None or norm_term(open_g) != norm_term(g) or reopen:
                    if open_g is not None:
                        self.rows.append(("graph_end", {}))
                        if reopen:
                            self.used["split-graph"] += 1
                    if self.rng.random() < self.pol.p_empty_graph:
                        # a graph that holds no triple: legal, denotes no statement
                        eg = self.rng.choice([("default",), ("bnode", "empty"), ("iri", "http://ex.org/ns/empty-graph")])
                        self.rows.append(("graph_start", {"g": self._term(eg)}))
                        self.rows.append(("graph_end", {}))
                        self._unpin()
                        self.used["empty-graph"] += 1
                    gt = self._term(g)
                    self.rows.append(("graph_start", {"g": gt}))
                    self._unpin()
                    open_g = g
                self.rows.append(("triple", self._stmt_body(st[:3], "spo")))
        if phys == 3 and open_g is not None:
            self.rows.append(("graph_end", {}))

    # ------------------------------------------------------------ frames
    def cut_frames(self, delimited: bool) -> list:
        rows = self.rows
        rng = self.rng
        if not delimited:
            return [{"rows": list(rows), "metadata": []}]
        frames = []
        mode = self.pol.frame_cut
        i = 0
        n = len(rows)
        while i < n:
            if rng.random() < self.pol.p_empty_frame:
                frames.append({"rows": [], "metadata": []})
                self.used["empty-frame"] += 1
            if mode == "one":
                k = n
            elif mode == "each":
                k = 1
            elif mode == "fixed":
                k = self.pol.frame_size
            else:
                k = rng.randint(1, max(1, min(n - i, 12)))
            frames.append({"rows": rows[i:i + k], "metadata": []})
            i += k
        if rng.random() < self.pol.p_empty_frame:
            frames.append({"rows": [], "metadata": []})
            self.used["empty-frame"] += 1
        for j, fr in enumerate(frames):
            if rng.random() < self.pol.p_metadata and (j > 0 or fr["rows"]):
                fr["metadata"] = [(f"k{j}", bytes([j % 256, 1, 2])), ("seq", str(j).encode())][: rng.randint(1, 2)]
                self.used["metadata"] += 1
        return frames


def make_options(rng: random.Random, physical: int, sizes: tuple[int, int, int],
                 has_ns: bool, version: int | None = None, logical: int | None = None,
                 stream_name: str | None = None) -> dict:
    if version is None:
        version = 2 if has_ns else rng.choice([1, 2])
    if logical is None:
        compatible = {1: [0, 1, 3, 13], 2: [0, 2, 4, 14, 114], 3: [0, 2, 4, 14, 114]}[physical]
        logical = rng.choice(compatible)
    if stream_name is None:
        stream_name = rng.choice(["", "", "s", "stream é 😀"])
    return {
        "stream_name": stream_name, "physical_type": physical,
        "generalized_statements": rng.random() < .5, "rdf_star": rng.random() < .5,
        "max_name_table_size": sizes[0], "max_prefix_table_size": sizes[1],
        "max_datatype_table_size": sizes[2], "logical_type": logical, "version": version,
    }


def produce(rng: random.Random, events: list, options: dict, policy: Policy,
            delimited: bool = True) -> Produced:
    """Encode events; verify with the reference decoder; raise ProducerError otherwise."""
    pr = Producer(rng, policy, options)
    pr.encode_events(events)
    frames = pr.cut_frames(delimited)
    data = wire.enc_stream(frames, delimited)
    # self-check through bytes (wire codec + reference decoder)
    res = refdec.decode(wire.dec_stream(data, delimited), strict_graphs=True)
    if res.violation is not None:
        raise InternalProducerError(f"reference decoder rejects reference producer output: {res.violation}")
    want = [("stmt", refdec.norm_stmt(e[1])) if e[0] == "stmt" else tuple(e) for e in events]
    got = [("stmt", refdec.norm_stmt(e[1])) if e[0] == "stmt" else tuple(e) for e in res.events]
    if want != got:
        raise InternalProducerError("reference decoder disagrees with reference producer on events")
    return Produced(frames=frames, rows=list(pr.rows), options=options, delimited=delimited,
                    data=data, events=events, used=pr.used)


def sizes_for(rng: random.Random, events: list, physical: int) -> tuple[int, int, int]:
    """Table sizes that fit any row under *any* split the producer may choose."""
    max_iris = 1
    max_dts = 0
    has_dt = False
    for ev in events:
        if ev[0] == "ns":
            continue
        st = ev[1]
        groups = [st[:3], st[3:]] if physical == 3 and len(st) == 4 else [st]
        for terms in groups:
            iris = set()
            dts = set()
            for top in terms:
                for t in iter_terms(top):
                    if t[0] == "iri":
                        iris.add(t[1])
                    elif t[0] == "lit" and t[3] and not t[2]:
                        dts.add(t[3])
            max_iris = max(max_iris, len(iris))
            max_dts = max(max_dts, len(dts))
            has_dt = has_dt or bool(dts)
    # early entries may add up to two rows' worth of entries; keep a margin
    names = max(8, max_iris + 1) + rng.choice([0, 0, 1, 2, 4, 8, 24, 120, 4000])
    names = min(names, 4096)
    prefixes = rng.choice([0, max_iris + 1, max_iris + 1, max_iris + 2, max_iris + 4, 16, 150, 4096])
    if has_dt:
        datatypes = max_dts + rng.choice([0, 0, 1, 2, 8, 32, 4096 - max_dts])
    else:
        datatypes = rng.choice([0, 1, 4, 32, 4096])
    return names, min(prefixes, 4096), min(datatypes, 4096)
