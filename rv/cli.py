"""./check <ID> {quick|thorough} [--replay FILE]"""
from __future__ import annotations

import os
import sys


def main(argv: list[str]) -> int:
    if len(argv) < 2:
        print("usage: check <ID> {quick|thorough} | check <ID> --replay FILE", file=sys.stderr)
        return 2
    pid = argv[0].upper()
    from rv import runner

    if argv[1] == "--replay":
        return runner.run_replay(pid, argv[2])
    tier = os.environ.get("VERIF_TIER") or argv[1]
    if argv[1] in ("quick", "thorough"):
        tier = argv[1]
    seed = int(os.environ.get("VERIF_SEED", "0"))
    if "--replay" in argv:
        return runner.run_replay(pid, argv[argv.index("--replay") + 1])
    return runner.run_check(pid, tier, seed)


if __name__ == "__main__":
    sys.exit(main(sys.argv[1:]))
