"""Neutral term model <-> pyjelly generic classes and rdflib terms.

Comparison of rdflib terms is done field by field (never rdflib ``==``).
Call :func:`rv.env.pin` before importing this module's converters.
"""
from __future__ import annotations

from typing import Any

from .refdec import XSD_STRING, norm_stmt, norm_term  # noqa: F401  (re-exported)

DEFAULT = ("default",)


# ----------------------------------------------------------------- generic

def to_generic(t: Any):
    from pyjelly.integrations.generic import generic_sink as gs

    k = t[0]
    if k in ("iri", "bnode", "lit"):
        o = gs.IRI(t[1]) if k == "iri" else gs.BlankNode(t[1]) if k == "bnode" else gs.Literal(t[1], t[2], t[3])
        # an application's terms have a history: every other one has been a dict key / set member before (hashed),
        # the rest are fresh - equality must not depend on that
        _COUNTER[0] += 1
        if _COUNTER[0] % 2:
            hash(o)
        return o
    if k == "triple":
        return gs.Triple(to_generic(t[1]), to_generic(t[2]), to_generic(t[3]))
    if k == "default":
        return gs.DefaultGraph
    raise ValueError(t)


_COUNTER = [0, 0]


def stmt_to_generic(st: tuple):
    from pyjelly.integrations.generic import generic_sink as gs

    terms = [to_generic(t) for t in st]
    return gs.Triple(*terms) if len(terms) == 3 else gs.Quad(*terms)


def from_generic(o: Any):
    from pyjelly.integrations.generic import generic_sink as gs

    if o is gs.DefaultGraph:
        return DEFAULT
    if type(o) is gs.IRI:
        v = o._iri
        if type(v) is not str:
            return ("bad-iri", type(v).__name__, str(v))
        return ("iri", v)
    if type(o) is gs.BlankNode:
        v = o._identifier
        return ("bnode", v) if type(v) is str else ("bad-bnode", repr(v))
    if type(o) is gs.Literal:
        return ("lit", o._lex, o._langtag, o._datatype)
    if type(o) is gs.Triple:
        return ("triple", from_generic(o.s), from_generic(o.p), from_generic(o.o))
    return ("unknown", type(o).__name__, repr(o)[:80])


def event_from_generic(item: Any):
    from pyjelly.integrations.generic import generic_sink as gs

    if type(item) is gs.Prefix:
        iri = from_generic(item.iri)
        if iri[0] == "iri":
            return ("ns", item.prefix, iri[1])
        return ("ns", item.prefix, iri)
    if type(item) in (gs.Triple, gs.Quad):
        bad = _accessor_mismatch(item)
        if bad:
            return bad
        return ("stmt", tuple(from_generic(t) for t in item))
    return ("unknown-event", type(item).__name__, repr(item)[:80])


# ----------------------------------------------------------------- rdflib

def to_rdflib(t: Any):
    import rdflib
    from rdflib.graph import DATASET_DEFAULT_GRAPH_ID

    k = t[0]
    if k == "iri":
        return rdflib.URIRef(t[1])
    if k == "bnode":
        return rdflib.BNode(t[1])
    if k == "lit":
        return rdflib.Literal(t[1], lang=t[2], datatype=rdflib.URIRef(t[3]) if t[3] else None)
    if k == "default":
        # every third default-graph marker is an equal COPY of rdflib's constant (what unpickling, deepcopy or
        # URIRef("urn:x-rdflib:default") written by hand gives), not the constant itself
        _COUNTER[1] += 1
        if _COUNTER[1] % 3 == 0:
            return rdflib.URIRef(str(DATASET_DEFAULT_GRAPH_ID))
        return DATASET_DEFAULT_GRAPH_ID
    raise ValueError(f"not an RDF 1.1 term for rdflib: {t!r}")


def stmt_to_rdflib(st: tuple):
    from pyjelly.integrations.rdflib.parse import Quad, Triple

    terms = [to_rdflib(t) for t in st]
    return Triple(*terms) if len(terms) == 3 else Quad(*terms)


def from_rdflib(o: Any, graph_slot: bool = False):
    import rdflib
    from rdflib.graph import DATASET_DEFAULT_GRAPH_ID

    if type(o) is rdflib.URIRef:
        s = str(o)
        if graph_slot and s == str(DATASET_DEFAULT_GRAPH_ID):
            return DEFAULT
        return ("iri", s)
    if type(o) is rdflib.BNode:
        return ("bnode", str(o))
    if type(o) is rdflib.Literal:
        dt = o.datatype
        return ("lit", str(o), o.language, str(dt) if dt is not None else None)
    if o is None:
        return ("none",)
    return ("unknown", type(o).__name__, repr(o)[:80])


def event_from_rdflib(item: Any):
    from pyjelly.integrations.rdflib import parse as rp

    if type(item) is rp.Prefix:
        iri = item.iri
        import rdflib

        if type(iri) is rdflib.URIRef:
            return ("ns", item.prefix, str(iri))
        return ("ns", item.prefix, ("bad-iri", type(iri).__name__, str(iri)))
    if type(item) in (rp.Triple, rp.Quad):
        bad = _accessor_mismatch(item)
        if bad:
            return bad
    if type(item) is rp.Triple:
        return ("stmt", tuple(from_rdflib(t) for t in item))
    if type(item) is rp.Quad:
        return ("stmt", (*(from_rdflib(t) for t in item[:3]), from_rdflib(item[3], True)))
    return ("unknown-event", type(item).__name__, repr(item)[:80])


def _accessor_mismatch(item: Any):
    """Statements are tuples WITH named accessors (.s .p .o .g): both views must show the same terms."""
    names = "spog"[:len(item)]
    for k, n in enumerate(names):
        if getattr(item, n) is not item[k]:
            return ("accessor-mismatch", type(item).__name__, f".{n} is not item[{k}]")
    return None


def rdflib_store_statements(store: Any) -> list:
    """Contents of an rdflib Graph / Dataset as neutral statements (a list; compare as set)."""
    from rdflib.graph import Dataset

    out = []
    if isinstance(store, Dataset):
        for s, p, o, g in store.quads():
            out.append((from_rdflib(s), from_rdflib(p), from_rdflib(o), from_rdflib(g, True)))
    else:
        for s, p, o in store:
            out.append((from_rdflib(s), from_rdflib(p), from_rdflib(o)))
    return out


# ----------------------------------------------------------------- misc

def norm_event(ev: tuple) -> tuple:
    if ev[0] == "stmt":
        return ("stmt", norm_stmt(ev[1]))
    return tuple(ev)


def norm_events(evs) -> list:
    return [norm_event(e) for e in evs]


def split_rule(iri: str) -> tuple[str, str]:
    """The split convention used to compute *need* (last '#', else last '/')."""
    for sep in "#/":
        i = iri.rfind(sep)
        if i >= 0:
            return iri[: i + 1], iri[i + 1:]
    return "", iri


def iter_terms(t: Any):
    """Depth-first, s/p/o order - the order in which terms are encoded."""
    if t[0] == "triple":
        for x in t[1:]:
            yield from iter_terms(x)
    else:
        yield t


def row_need(terms, prefixes_enabled: bool = True) -> tuple[int, int, int]:
    """Distinct (prefix, name, datatype) entries one row needs under the split rule."""
    P, N, D = set(), set(), set()
    for top in terms:
        for t in iter_terms(top):
            if t[0] == "iri":
                if prefixes_enabled:
                    p, n = split_rule(t[1])
                    P.add(p)
                    N.add(n)
                else:
                    N.add(t[1])
            elif t[0] == "lit" and t[3] and t[3] != XSD_STRING and not t[2]:
                D.add(t[3])
    return len(P), len(N), len(D)


def to_json(x: Any):
    """Neutral data -> JSON-able (tuples become lists)."""
    if isinstance(x, (tuple, list)):
        return [to_json(i) for i in x]
    if isinstance(x, dict):
        return {str(k): to_json(v) for k, v in x.items()}
    if isinstance(x, bytes):
        return {"hex": x.hex()}
    return x


def from_json(x: Any):
    if isinstance(x, list):
        return tuple(from_json(i) for i in x)
    if isinstance(x, dict):
        if set(x) == {"hex"}:
            return bytes.fromhex(x["hex"])
        return {k: from_json(v) for k, v in x.items()}
    return x
