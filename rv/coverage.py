"""'Seen once' line coverage of the tree under test via sys.monitoring (3.12).

Every location fires at most once (the callback returns DISABLE), so the cost
is negligible.  Reported in the evidence so a reader can see which anchored
code the workload actually executed.
"""
from __future__ import annotations

import os
import re
import sys

from . import env

TOOL = 3  # sys.monitoring.PROFILER_ID+1; any free id


class _Cov:
    def __init__(self):
        self.hits: dict[str, set] = {}
        self.root = os.path.join(env.REPO, "pyjelly") + os.sep
        self.active = False

    def _line(self, code, line):
        fn = code.co_filename
        if fn.startswith(self.root):
            self.hits.setdefault(fn[len(env.REPO) + 1:], set()).add(line)
        return sys.monitoring.DISABLE

    def stop(self) -> dict:
        if self.active:
            mon = sys.monitoring
            mon.set_events(TOOL, 0)
            mon.register_callback(TOOL, mon.events.LINE, None)
            mon.free_tool_id(TOOL)
            self.active = False
        return {f: sorted(v) for f, v in self.hits.items()}


def start():
    if not hasattr(sys, "monitoring") or os.environ.get("RV_NO_COVERAGE"):
        return None
    mon = sys.monitoring
    c = _Cov()
    try:
        mon.use_tool_id(TOOL, "rv-coverage")
    except ValueError:
        return None
    mon.register_callback(TOOL, mon.events.LINE, c._line)
    mon.set_events(TOOL, mon.events.LINE)
    c.active = True
    return c


def _executable_lines(path: str) -> set:
    """Statement-start lines of a source file, from its compiled code objects."""
    try:
        with open(path) as f:
            src = f.read()
        top = compile(src, path, "exec")
    except (OSError, SyntaxError):
        return set()
    lines = set()
    stack = [top]
    while stack:
        co = stack.pop()
        for _, _, ln in co.co_lines():
            if ln is not None:
                lines.add(ln)
        stack.extend(c for c in co.co_consts if hasattr(c, "co_lines"))
    return lines


def summarise(cov: dict, anchors: list, markers: dict) -> dict:
    out = {}
    for rel in anchors:
        path = os.path.join(env.REPO, rel)
        hit = set(cov.get(rel, ()))
        exe = _executable_lines(path)
        out[rel] = {"lines_hit": len(hit & exe) if exe else len(hit), "lines_executable": len(exe)}
    seen = {}
    for name, (rel, pattern) in markers.items():
        path = os.path.join(env.REPO, rel)
        found = None
        try:
            with open(path) as f:
                for i, line in enumerate(f, 1):
                    if re.search(pattern, line):
                        found = i
                        break
        except OSError:
            pass
        seen[name] = (found in set(cov.get(rel, ()))) if found else None
    if seen:
        out["markers_seen"] = seen
    return out
