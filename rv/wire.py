"""Independent protobuf wire codec for the Jelly messages.

No pyjelly, no rdf_pb2, no google.protobuf.  Field numbers are those of
``rdf.proto`` (Jelly 1.1).  Messages are plain Python data:

frame  := {"rows": [row, ...], "metadata": [(key:str, value:bytes), ...]}
row    := ("options", {stream_name, physical_type, generalized_statements,
                       rdf_star, max_name_table_size, max_prefix_table_size,
                       max_datatype_table_size, logical_type, version})
        | ("triple", {"s": term?, "p": term?, "o": term?})
        | ("quad",   {"s": term?, "p": term?, "o": term?, "g": term?})
        | ("graph_start", {"g": term?})
        | ("graph_end", {})
        | ("namespace", {"name": str, "value": ("iri", prefix_id, name_id) | None})
        | ("name" | "prefix" | "datatype", {"id": int, "value": str})
        | ("empty", {})                        # row message with no member set
term   := ("iri", prefix_id, name_id)
        | ("bnode", str)
        | ("lit", lex, kind, payload)          # kind in {"simple","lang","dt"}
        | ("triple", {"s":..., "p":..., "o":...})
        | ("default",)
absent slot = key missing or None.
"""
from __future__ import annotations

from typing import Any


class WireError(ValueError):
    """Malformed protobuf wire data."""


# ---------------------------------------------------------------- low level

def enc_varint(n: int) -> bytes:
    if n < 0:
        n += 1 << 64
    out = bytearray()
    while True:
        b = n & 0x7F
        n >>= 7
        if n:
            out.append(b | 0x80)
        else:
            out.append(b)
            return bytes(out)


def dec_varint(buf: bytes, pos: int) -> tuple[int, int]:
    result = 0
    shift = 0
    start = pos
    while True:
        if pos >= len(buf):
            raise WireError("truncated varint")
        b = buf[pos]
        pos += 1
        result |= (b & 0x7F) << shift
        if not b & 0x80:
            break
        shift += 7
        if pos - start >= 10:
            raise WireError("varint too long")
    return result & 0xFFFFFFFFFFFFFFFF, pos


def tag(field: int, wt: int) -> bytes:
    return enc_varint((field << 3) | wt)


def f_varint(field: int, value: int) -> bytes:
    return tag(field, 0) + enc_varint(value)


def f_bytes(field: int, payload: bytes) -> bytes:
    return tag(field, 2) + enc_varint(len(payload)) + payload


def f_str(field: int, s: str) -> bytes:
    return f_bytes(field, s.encode("utf-8"))


def split_fields(buf: bytes) -> list[tuple[int, int, Any]]:
    """Split a message body into (field_number, wire_type, value) triples."""
    out = []
    pos = 0
    n = len(buf)
    while pos < n:
        key, pos = dec_varint(buf, pos)
        field, wt = key >> 3, key & 7
        if field == 0:
            raise WireError("field number 0")
        if wt == 0:
            v, pos = dec_varint(buf, pos)
        elif wt == 1:
            if pos + 8 > n:
                raise WireError("truncated fixed64")
            v = buf[pos:pos + 8]
            pos += 8
        elif wt == 2:
            ln, pos = dec_varint(buf, pos)
            if pos + ln > n:
                raise WireError("truncated length-delimited field")
            v = buf[pos:pos + ln]
            pos += ln
        elif wt == 5:
            if pos + 4 > n:
                raise WireError("truncated fixed32")
            v = buf[pos:pos + 4]
            pos += 4
        else:
            raise WireError(f"unsupported wire type {wt}")
        out.append((field, wt, v))
    return out


def _utf8(b: bytes) -> str:
    try:
        return b.decode("utf-8")
    except UnicodeDecodeError as e:  # proto3 strings must be valid UTF-8
        raise WireError("invalid UTF-8 in string field") from e


# ---------------------------------------------------------------- encoding

_SLOT_BASE = {"s": 0, "p": 4, "o": 8}


def enc_iri(prefix_id: int, name_id: int) -> bytes:
    out = b""
    if prefix_id:
        out += f_varint(1, prefix_id)
    if name_id:
        out += f_varint(2, name_id)
    return out


def enc_literal(lex: str, kind: str, payload: Any) -> bytes:
    out = b""
    if lex:
        out += f_str(1, lex)
    if kind == "lang":
        out += f_str(2, payload)          # oneof member: presence is explicit
    elif kind == "dt":
        out += f_varint(3, payload)       # explicit presence even when 0
    elif kind != "simple":
        raise ValueError(kind)
    return out


def enc_term_spo(slot: str, term: Any) -> bytes:
    base = _SLOT_BASE[slot]
    k = term[0]
    if k == "iri":
        return f_bytes(base + 1, enc_iri(term[1], term[2]))
    if k == "bnode":
        return f_str(base + 2, term[1])
    if k == "lit":
        return f_bytes(base + 3, enc_literal(term[1], term[2], term[3]))
    if k == "triple":
        return f_bytes(base + 4, enc_triple(term[1]))
    raise ValueError(f"term kind {k!r} not allowed in slot {slot}")


def enc_term_g(term: Any, base: int) -> bytes:
    """Graph term; base=12 for quad (fields 13..16), base=0 for graph_start (1..4)."""
    k = term[0]
    if k == "iri":
        return f_bytes(base + 1, enc_iri(term[1], term[2]))
    if k == "bnode":
        return f_str(base + 2, term[1])
    if k == "default":
        return f_bytes(base + 3, b"")
    if k == "lit":
        return f_bytes(base + 4, enc_literal(term[1], term[2], term[3]))
    raise ValueError(f"term kind {k!r} not allowed as graph")


def enc_triple(t: dict) -> bytes:
    out = b""
    for slot in ("s", "p", "o"):
        term = t.get(slot)
        if term is not None:
            out += enc_term_spo(slot, term)
    return out


def enc_quad(q: dict) -> bytes:
    out = enc_triple(q)
    g = q.get("g")
    if g is not None:
        out += enc_term_g(g, 12)
    return out


OPTION_FIELDS = (
    ("stream_name", 1, "str"),
    ("physical_type", 2, "int"),
    ("generalized_statements", 3, "bool"),
    ("rdf_star", 4, "bool"),
    ("max_name_table_size", 9, "int"),
    ("max_prefix_table_size", 10, "int"),
    ("max_datatype_table_size", 11, "int"),
    ("logical_type", 14, "int"),
    ("version", 15, "int"),
)


def default_options() -> dict:
    return {
        "stream_name": "", "physical_type": 0, "generalized_statements": False,
        "rdf_star": False, "max_name_table_size": 0, "max_prefix_table_size": 0,
        "max_datatype_table_size": 0, "logical_type": 0, "version": 0,
    }


def enc_options(o: dict) -> bytes:
    out = b""
    for name, num, typ in OPTION_FIELDS:
        v = o.get(name)
        if not v:
            continue
        if typ == "str":
            out += f_str(num, v)
        else:
            out += f_varint(num, int(v))
    return out


def enc_entry(e: dict) -> bytes:
    out = b""
    if e.get("id"):
        out += f_varint(1, e["id"])
    if e.get("value"):
        out += f_str(2, e["value"])
    return out


ROW_FIELD = {
    "options": 1, "triple": 2, "quad": 3, "graph_start": 4, "graph_end": 5,
    "namespace": 6, "name": 9, "prefix": 10, "datatype": 11,
}
ROW_KIND = {v: k for k, v in ROW_FIELD.items()}


def enc_row(row: tuple) -> bytes:
    kind, body = row[0], (row[1] if len(row) > 1 else {})
    if kind == "empty":
        return b""
    if kind == "raw":           # ("raw", bytes) - hostile generators only
        return body
    if kind == "options":
        payload = enc_options(body)
    elif kind == "triple":
        payload = enc_triple(body)
    elif kind == "quad":
        payload = enc_quad(body)
    elif kind == "graph_start":
        g = body.get("g")
        payload = enc_term_g(g, 0) if g is not None else b""
    elif kind == "graph_end":
        payload = b""
    elif kind == "namespace":
        payload = b""
        if body.get("name"):
            payload += f_str(1, body["name"])
        v = body.get("value")
        if v is not None:
            payload += f_bytes(2, enc_iri(v[1], v[2]))
    elif kind in ("name", "prefix", "datatype"):
        payload = enc_entry(body)
    else:
        raise ValueError(kind)
    return f_bytes(ROW_FIELD[kind], payload)


def enc_frame(frame: dict) -> bytes:
    out = b""
    for row in frame.get("rows", ()):
        out += f_bytes(1, enc_row(row))
    for k, v in frame.get("metadata", ()):
        entry = b""
        if k:
            entry += f_str(1, k)
        if v:
            entry += f_bytes(2, v)
        out += f_bytes(15, entry)
    return out


def enc_stream(frames: list[dict], delimited: bool = True) -> bytes:
    if not delimited:
        if len(frames) != 1:
            raise ValueError("non-delimited output holds exactly one frame")
        return enc_frame(frames[0])
    out = bytearray()
    for fr in frames:
        b = enc_frame(fr)
        out += enc_varint(len(b)) + b
    return bytes(out)


# ---------------------------------------------------------------- decoding

def _merge_by_field(fields: list[tuple[int, int, Any]], msg_fields: set[int]):
    """proto3 merge semantics: message-typed singular fields concatenate."""
    last: dict[int, Any] = {}
    order: list[int] = []
    for num, wt, v in fields:
        if num in msg_fields and wt == 2 and num in last:
            last[num] = (2, last[num][1] + v)
        else:
            last[num] = (wt, v)
        if num in order:
            order.remove(num)
        order.append(num)
    return last, order


def _expect(wt: int, want: int, what: str) -> None:
    if wt != want:
        raise WireError(f"wrong wire type {wt} for {what}")


def dec_iri(buf: bytes) -> tuple:
    p = n = 0
    for num, wt, v in split_fields(buf):
        if num == 1:
            _expect(wt, 0, "prefix_id")
            p = v & 0xFFFFFFFF
        elif num == 2:
            _expect(wt, 0, "name_id")
            n = v & 0xFFFFFFFF
    return ("iri", p, n)


def dec_literal(buf: bytes) -> tuple:
    lex = ""
    kind, payload = "simple", None
    for num, wt, v in split_fields(buf):
        if num == 1:
            _expect(wt, 2, "lex")
            lex = _utf8(v)
        elif num == 2:
            _expect(wt, 2, "langtag")
            kind, payload = "lang", _utf8(v)
        elif num == 3:
            _expect(wt, 0, "datatype")
            kind, payload = "dt", v & 0xFFFFFFFF
    return ("lit", lex, kind, payload)


def _dec_terms(buf: bytes, with_graph: bool, depth: int) -> dict:
    if depth > 100:  # protobuf's default recursion limit
        raise WireError("nesting too deep")
    msgf = {1, 3, 4, 5, 7, 8, 9, 11, 12, 13, 15, 16}
    last, order = _merge_by_field(split_fields(buf), msgf)
    out: dict[str, Any] = {}
    for num in order:  # later fields of the same oneof overwrite earlier ones
        wt, v = last[num]
        if 1 <= num <= 12:
            slot = "spo"[(num - 1) // 4]
            which = (num - 1) % 4
            if which == 0:
                _expect(wt, 2, "iri")
                out[slot] = dec_iri(v)
            elif which == 1:
                _expect(wt, 2, "bnode")
                out[slot] = ("bnode", _utf8(v))
            elif which == 2:
                _expect(wt, 2, "literal")
                out[slot] = dec_literal(v)
            else:
                _expect(wt, 2, "triple_term")
                out[slot] = ("triple", _dec_terms(v, False, depth + 1))
        elif with_graph and 13 <= num <= 16:
            out["g"] = _dec_gterm(num - 12, wt, v)
    return out


def _dec_gterm(which: int, wt: int, v: Any) -> tuple:
    _expect(wt, 2, "graph term")
    if which == 1:
        return dec_iri(v)
    if which == 2:
        return ("bnode", _utf8(v))
    if which == 3:
        split_fields(v)
        return ("default",)
    return dec_literal(v)


def dec_options(buf: bytes) -> dict:
    o = default_options()
    by_num = {num: (name, typ) for name, num, typ in OPTION_FIELDS}
    for num, wt, v in split_fields(buf):
        if num not in by_num:
            continue
        name, typ = by_num[num]
        if typ == "str":
            _expect(wt, 2, name)
            o[name] = _utf8(v)
        elif typ == "bool":
            _expect(wt, 0, name)
            o[name] = bool(v)
        else:
            _expect(wt, 0, name)
            o[name] = v & 0xFFFFFFFF
    return o


def dec_entry(buf: bytes) -> dict:
    e = {"id": 0, "value": ""}
    for num, wt, v in split_fields(buf):
        if num == 1:
            _expect(wt, 0, "id")
            e["id"] = v & 0xFFFFFFFF
        elif num == 2:
            _expect(wt, 2, "value")
            e["value"] = _utf8(v)
    return e


def dec_row(buf: bytes) -> tuple:
    known = set(ROW_KIND)
    last, order = _merge_by_field(split_fields(buf), known)
    order = [n for n in order if n in known]
    if not order:
        return ("empty", {})
    num = order[-1]  # last member of the oneof wins
    wt, v = last[num]
    _expect(wt, 2, "row member")
    kind = ROW_KIND[num]
    if kind == "options":
        return (kind, dec_options(v))
    if kind == "triple":
        return (kind, _dec_terms(v, False, 0))
    if kind == "quad":
        return (kind, _dec_terms(v, True, 0))
    if kind == "graph_start":
        l2, o2 = _merge_by_field(split_fields(v), {1, 3, 4})
        o2 = [n for n in o2 if 1 <= n <= 4]
        body = {}
        if o2:
            w2, v2 = l2[o2[-1]]
            body["g"] = _dec_gterm(o2[-1], w2, v2)
        return (kind, body)
    if kind == "graph_end":
        split_fields(v)
        return (kind, {})
    if kind == "namespace":
        body = {"name": "", "value": None}
        l2, o2 = _merge_by_field(split_fields(v), {2})
        for n2 in o2:
            w2, v2 = l2[n2]
            if n2 == 1:
                _expect(w2, 2, "ns name")
                body["name"] = _utf8(v2)
            elif n2 == 2:
                _expect(w2, 2, "ns value")
                body["value"] = dec_iri(v2)
        return (kind, body)
    return (kind, dec_entry(v))


def dec_frame(buf: bytes) -> dict:
    rows = []
    meta = []
    offs = []
    pos = 0
    n = len(buf)
    while pos < n:
        start = pos
        key, pos = dec_varint(buf, pos)
        field, wt = key >> 3, key & 7
        if field == 0:
            raise WireError("field number 0")
        if wt == 0:
            _, pos = dec_varint(buf, pos)
            continue
        if wt == 1:
            pos += 8
            if pos > n:
                raise WireError("truncated")
            continue
        if wt == 5:
            pos += 4
            if pos > n:
                raise WireError("truncated")
            continue
        if wt != 2:
            raise WireError(f"unsupported wire type {wt}")
        ln, pos = dec_varint(buf, pos)
        if pos + ln > n:
            raise WireError("truncated field")
        v = buf[pos:pos + ln]
        pos += ln
        if field == 1:
            rows.append(dec_row(v))
            offs.append((start, pos))
        elif field == 15:
            k, val = "", b""
            for n2, w2, v2 in split_fields(v):
                if n2 == 1:
                    k = _utf8(v2)
                elif n2 == 2:
                    val = bytes(v2)
            meta.append((k, val))
    return {"rows": rows, "metadata": meta, "row_offsets": offs}


def split_delimited(buf: bytes) -> list[tuple[int, int, int]]:
    """Return [(start_of_length_prefix, start_of_body, end)] for each frame."""
    out = []
    pos = 0
    while pos < len(buf):
        start = pos
        ln, pos = dec_varint(buf, pos)
        if pos + ln > len(buf):
            raise WireError("truncated frame")
        out.append((start, pos, pos + ln))
        pos += ln
    return out


def is_delimited_by_construction(buf: bytes) -> bool:
    """Spec rule for telling the two framings apart (reference copy).

    A non-delimited file is one RdfStreamFrame whose first field is ``rows``
    (tag 0x0A) holding an options row (tag 0x0A).  A delimited file starts
    with a varint length.  Used only for harness self-tests; C08 uses
    construction mode as ground truth.
    """
    if len(buf) < 3:
        return True
    return not (buf[0] == 0x0A and buf[1] != 0x0A) and not (
        buf[0] == 0x0A and buf[1] == 0x0A and buf[2] == 0x0A
    )


def dec_stream(buf: bytes, delimited: bool) -> list[dict]:
    """Decode a byte string into frames (each with byte offsets)."""
    frames = []
    if delimited:
        for start, body, end in split_delimited(buf):
            fr = dec_frame(buf[body:end])
            fr["span"] = (start, end)
            fr["row_offsets"] = [(a + body, b + body) for a, b in fr["row_offsets"]]
            frames.append(fr)
    else:
        fr = dec_frame(buf)
        fr["span"] = (0, len(buf))
        frames.append(fr)
    return frames
